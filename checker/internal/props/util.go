package props

import (
	"fmt"
	"go/constant"
	"go/token"
	"go/types"
	"sort"
	"strings"

	"golang.org/x/tools/go/ssa"

	"lincheck/internal/eng"
)

// topFunc returns the key of the outermost function enclosing fn (closures are attributed to
// the function they are written in).
func topFunc(c *eng.Ctx, fn *ssa.Function) string {
	return c.P.FuncKey(topFn(c.P, fn))
}

// topFn: the outermost function enclosing fn; the body of a goroutine that was moved out of a `go func() {…}()` literal into an
// unexported function with that single `go` call site still belongs to the function that starts it.
func topFn(p *eng.Prog, fn *ssa.Function) *ssa.Function {
	for hop := 0; hop < 4; hop++ {
		for fn.Parent() != nil {
			fn = fn.Parent()
		}
		if fn.Object() == nil || fn.Object().Exported() {
			return fn
		}
		callers := p.StaticCallers(fn)
		if len(callers) != 1 {
			return fn
		}
		if _, isGo := callers[0].Instr.(*ssa.Go); !isGo {
			return fn
		}
		fn = callers[0].Fn
	}
	return fn
}

func inList(s string, l []string) bool {
	for _, x := range l {
		if x == s {
			return true
		}
		if strings.HasSuffix(x, "*") && strings.HasPrefix(s, strings.TrimSuffix(x, "*")) {
			return true
		}
	}
	return false
}

// owner: every site matched by m anywhere in the module must lie in one of the allowed functions
// (closures attributed to their enclosing function). At least min sites must exist.
func owner(c *eng.Ctx, what string, m eng.Matcher, allowed []string, min int) {
	sites := c.P.SitesInProgram(m)
	byFn := map[string]int{}
	for _, s := range sites {
		tf := topFunc(c, s.Fn)
		byFn[tf]++
		if !inList(tf, allowed) {
			// an unexported helper all of whose static callers are owners (transitively) acts for them
			if own := ownerThroughCallers(c, s.Fn, allowed, 0, map[*ssa.Function]bool{}); own != "" {
				tf = own
			}
		}
		c.Check(inList(tf, allowed), what+"@"+tf, s.Instr, s.Fn,
			fmt.Sprintf("%s only in {%s}", what, strings.Join(allowed, ", ")),
			fmt.Sprintf("%s occurs in %s, which is not an owner of it", what, tf))
	}
	if min > 1 {
		min = 1 // how many sites implement the operation is a matter of code shape; that it exists at all is not
	}
	if len(sites) < min {
		c.Check(false, what+"@count", nil, nil, fmt.Sprintf("at least %d sites of %s exist (positive example)", min, what),
			fmt.Sprintf("only %d sites found: the rule no longer matches the code", len(sites)))
	}
}

// orderInFn: every B site in fn is dominated by the set of A sites (A ≺ B on every path).
// Both must exist.
func orderInFn(c *eng.Ctx, fn *ssa.Function, a, b eng.Matcher, an, bn string) {
	as := c.Some(fn, a, an)
	bs := c.Some(fn, b, bn)
	for i, s := range bs {
		c.Check(eng.DominatedBy(fn, s.Instr, as, nil), fmt.Sprintf("%s<%s[%d]", an, bn, i), s.Instr, fn,
			fmt.Sprintf("every path to %s passes %s first", bn, an),
			fmt.Sprintf("a path reaches %s without passing %s", bn, an))
	}
}

// okOrderInFn: every B site is reachable only after the (single) A call returned a nil error.
func okOrderInFn(c *eng.Ctx, fn *ssa.Function, a, b eng.Matcher, an, bn string) {
	as := c.Some(fn, a, an)
	bs := c.Some(fn, b, bn)
	for i, s := range bs {
		ok := false
		why := ""
		for _, x := range as {
			if good, w := eng.OkDominates(fn, x.Instr, s.Instr); good {
				ok = true
				break
			} else {
				why = w
			}
		}
		c.Check(ok, fmt.Sprintf("%s(ok)<%s[%d]", an, bn, i), s.Instr, fn,
			fmt.Sprintf("%s is reached only after %s returned a nil error", bn, an), why)
	}
}

// neverAfter: no path on which a B site executes and an A site executes later (B not before A).
func neverBefore(c *eng.Ctx, fn *ssa.Function, first, then eng.Matcher, fname, tname string) {
	fs := c.Some(fn, first, fname)
	ts := c.Some(fn, then, tname)
	for i, t := range ts {
		w, found := eng.Reaches(fn, t.Instr, fs, nil)
		detail := ""
		if found {
			detail = fmt.Sprintf("%s at %s can still execute after %s", fname, c.P.InstrPos(w), tname)
		}
		c.Check(!found, fmt.Sprintf("%s!>%s[%d]", tname, fname, i), t.Instr, fn,
			fmt.Sprintf("%s never executes before %s on any path", tname, fname), detail)
	}
}

func keysOf(m map[string]int) string {
	var ks []string
	for k, v := range m {
		ks = append(ks, fmt.Sprintf("%s×%d", k, v))
	}
	sort.Strings(ks)
	return strings.Join(ks, ", ")
}

// storedValue returns the value written by a field-store site (plain store or atomic Store(v)).
func storedValue(in ssa.Instruction) (ssa.Value, string) {
	if st, ok := in.(*ssa.Store); ok {
		return st.Val, "store"
	}
	if fa, m, call := eng.AtomicOp(in); fa != nil {
		args := call.Common().Args
		if len(args) >= 2 {
			return args[len(args)-1], m
		}
		return nil, m
	}
	return nil, ""
}

// invokeOn matches an interface/method call named `method` whose receiver descriptor ends with recvSuffix.
func invokeOn(recvSuffix string, methods ...string) eng.Matcher {
	return func(p *eng.Prog, in ssa.Instruction) bool {
		c, ok := in.(*ssa.Call)
		if !ok {
			return false
		}
		cc := c.Common()
		var name string
		if cc.IsInvoke() {
			name = cc.Method.Name()
		} else if f := cc.StaticCallee(); f != nil && f.Signature.Recv() != nil {
			name = baseName(f.Name())
		} else {
			return false
		}
		okm := false
		for _, m := range methods {
			if m == name {
				okm = true
			}
		}
		if !okm {
			return false
		}
		r := eng.CallRecv(c)
		if r == nil {
			return false
		}
		if strings.HasSuffix(p.Desc(r), recvSuffix) {
			return true
		}
		// the receiver handed to a helper as a parameter: judged by what the (single) caller passes
		return strings.HasPrefix(recvSuffix, ".") && strings.HasSuffix(p.DescUp(eng.Unwrap(r)), recvSuffix)
	}
}

func descOf(c *eng.Ctx, v ssa.Value) string { return c.P.Desc(v) }

var constantZero = constant.MakeInt64(0)

// baseName strips the type-argument list of an instantiated generic function name.
func baseName(n string) string {
	if i := strings.Index(n, "["); i >= 0 {
		return n[:i]
	}
	return n
}

// deferredErrStores lists, for fn, the stores performed inside deferred function literals of fn into a captured variable of
// type error, and says for each whether the captured variable is a NAMED RESULT of fn (only then does the store change what
// fn returns: a deferred assignment to an ordinary local happens after the return value was already evaluated).
type deferredErrStore struct {
	Store   *ssa.Store
	Closure *ssa.Function
	Named   bool
	Var     string
}

func deferredErrStores(fn *ssa.Function) []deferredErrStore {
	var out []deferredErrStore
	named := map[token.Pos]bool{}
	if res := fn.Signature.Results(); res != nil {
		for i := 0; i < res.Len(); i++ {
			if n := res.At(i).Name(); n != "" && n != "_" {
				named[res.At(i).Pos()] = true
			}
		}
	}
	for _, b := range fn.Blocks {
		for _, in := range b.Instrs {
			d, ok := in.(*ssa.Defer)
			if !ok {
				continue
			}
			mc, ok := eng.Unwrap(d.Call.Value).(*ssa.MakeClosure)
			if !ok {
				continue
			}
			cl := mc.Fn.(*ssa.Function)
			for _, cb := range cl.Blocks {
				for _, cin := range cb.Instrs {
					st, ok := cin.(*ssa.Store)
					if !ok {
						continue
					}
					fv, ok := st.Addr.(*ssa.FreeVar)
					if !ok || !isErrorType(st.Val.Type()) {
						continue
					}
					// binding of the free variable in the closure creation
					idx := -1
					for i, v := range cl.FreeVars {
						if v == fv {
							idx = i
						}
					}
					if idx < 0 || idx >= len(mc.Bindings) {
						continue
					}
					al, isAlloc := mc.Bindings[idx].(*ssa.Alloc)
					isNamed := isAlloc && named[al.Pos()] && al.Parent() == fn
					out = append(out, deferredErrStore{st, cl, isNamed, fv.Name()})
				}
			}
		}
	}
	return out
}

func isErrorType(t types.Type) bool {
	nt, ok := t.(*types.Named)
	return ok && nt.Obj().Pkg() == nil && nt.Obj().Name() == "error"
}

// passesOnEveryExit: every return of fn (success or failure) is preceded by an m-site: either fn must-pass m directly, or a
// deferred function literal registered before any return can happen (its defer dominates every return) must-pass m.
func passesOnEveryExit(p *eng.Prog, fn *ssa.Function, m eng.Matcher) (bool, string) {
	if p.MustPass(fn, m, 1) {
		return true, "direct"
	}
	for _, b := range fn.Blocks {
		for _, in := range b.Instrs {
			d, ok := in.(*ssa.Defer)
			if !ok {
				continue
			}
			var cl *ssa.Function
			if mc, ok := eng.Unwrap(d.Call.Value).(*ssa.MakeClosure); ok {
				cl = mc.Fn.(*ssa.Function)
			} else if sf := d.Call.StaticCallee(); sf != nil {
				cl = sf
			}
			if cl == nil || cl.Blocks == nil || !p.MustPass(cl, m, 1) {
				continue
			}
			// the defer is registered on every path to every return
			_, leak := eng.PathExists(eng.PathQuery{Fn: fn,
				Target:  func(x ssa.Instruction) bool { _, ok := x.(*ssa.Return); return ok && x.Block() != fn.Recover },
				Blocked: func(x ssa.Instruction) bool { return x == in }})
			if !leak {
				return true, "deferred"
			}
		}
	}
	return false, "a return is reachable without the reset (neither on the path nor in a defer registered before it)"
}

// singleFlight: the boolean flag field guards a background job that must never run twice at once.
//   - the flag becomes true only through CompareAndSwap(false, true) (a Load followed by Store(true) lets two triggers both start);
//   - the job goroutine is started only on the success edge of that CAS;
//   - the flag is cleared only by the job itself (function literals inside the starter).
func singleFlight(c *eng.Ctx, flag string, starter string) {
	p := c.P
	f := c.Fn(starter)
	var cas []eng.Site
	n := 0
	for _, fn := range p.AllFuncs {
		for _, b := range fn.Blocks {
			for _, in := range b.Instrs {
				fa, m, call := eng.AtomicOp(in)
				if fa == nil || eng.FieldKeyOfAddr(fa) != flag {
					continue
				}
				top := topFunc(c, fn)
				switch m {
				case "Load":
				case "CompareAndSwap", "CAS":
					a := call.Common().Args
					oldV, o1 := a[1].(*ssa.Const)
					newV, o2 := a[2].(*ssa.Const)
					okC := o1 && o2 && oldV.Value != nil && newV.Value != nil && oldV.Value.String() == "false" && newV.Value.String() == "true"
					c.Check(okC && top == starter, fmt.Sprintf("claim-is-cas(false,true)@%s[%d]", top, n), in, fn, "the flag is claimed with CompareAndSwap(false, true) in "+starter, "")
					if fn == f {
						cas = append(cas, eng.Site{Fn: fn, Instr: in})
					}
					n++
				case "Store", "Swap":
					a := call.Common().Args
					v, isC := a[1].(*ssa.Const)
					isFalse := isC && v.Value != nil && v.Value.String() == "false"
					c.Check(isFalse, fmt.Sprintf("no-blind-set@%s[%d]", top, n), in, fn, "the flag is never set to true by a plain Store (check-then-set lets two triggers both pass the check)", "Store of "+p.Desc(a[1]))
					c.Check(top == starter && fn != f, fmt.Sprintf("cleared-by-the-job@%s[%d]", top, n), in, fn, "the flag is cleared only by the job itself", "cleared in "+p.FuncKey(fn))
					n++
				default:
					c.Check(false, fmt.Sprintf("unknown-op@%s[%d]", top, n), in, fn, "only Load / CompareAndSwap / Store(false) are used on the flag", m)
					n++
				}
			}
		}
	}
	c.Check(len(cas) == 1, "one-claim", nil, f, starter+" claims the flag at one place", fmt.Sprintf("%d", len(cas)))
	if len(cas) != 1 {
		return
	}
	te, _ := eng.BoolCheckEdges(f, cas[0].Instr.(ssa.Value))
	gos := 0
	for _, b := range f.Blocks {
		for _, in := range b.Instrs {
			if g, ok := in.(*ssa.Go); ok {
				gos++
				ok2 := false
				for _, e := range te {
					if eng.DominatedByEdge(f, g, e) {
						ok2 = true
					}
				}
				c.Check(ok2, fmt.Sprintf("job-started-only-by-the-claimer[%d]", gos), g, f, "the background job is started only on the success edge of the claim", "")
			}
		}
	}
	c.Check(gos >= 1, "job-started", nil, f, starter+" starts the job in a goroutine", "no go statement")
}

// errorsOnlyFrom: every error fn can return is an error one of the listed callees returned (error provenance): fn adds no
// failure of its own, in particular no "not found" for an empty result.
func errorsOnlyFrom(c *eng.Ctx, fnKey string, callees eng.Matcher, what string) {
	p := c.P
	f := c.Fn(fnKey)
	srcs := c.Some(f, callees, what)
	n := 0
	for _, b := range f.Blocks {
		if b == f.Recover {
			continue
		}
		for _, in := range b.Instrs {
			r, ok := in.(*ssa.Return)
			if !ok || len(r.Results) == 0 {
				continue
			}
			ev := eng.RetVal(r, len(r.Results)-1)
			if ev == nil || !isErrorType(ev.Type()) || eng.IsNilConst(ev) {
				continue
			}
			n++
			from := eng.DependsOn(ev, func(x ssa.Value) bool {
				for _, s := range srcs {
					if x == s.Instr.(ssa.Value) {
						return true
					}
				}
				return false
			})
			c.Check(from, fmt.Sprintf("%s:error-is-the-callees[%d]", fnKey, n), r, f, "the only errors "+fnKey+" returns are those of "+what+" (an empty match is an empty set, not a failure)", "returns "+p.Desc(ev))
		}
	}
	c.Check(n >= 1, fnKey+":has-error-exit", nil, f, fnKey+" propagates the error of "+what, "no error return")
}

// ownerThroughCallers: fn (or the function its closure is written in) is an unexported helper whose every static caller is
// an allowed owner, or is again such a helper (depth-bounded).  Returns the owner it acts for ("" when not).
func ownerThroughCallers(c *eng.Ctx, fn *ssa.Function, allowed []string, depth int, seen map[*ssa.Function]bool) string {
	for fn.Parent() != nil {
		fn = fn.Parent()
	}
	if depth > 3 || seen[fn] {
		return ""
	}
	seen[fn] = true
	k := c.P.FuncKey(fn)
	if inList(k, allowed) {
		return k
	}
	name := baseName(fn.Name())
	if name == "" || (name[0] >= 'A' && name[0] <= 'Z') {
		return "" // exported: anyone may call it
	}
	callers := c.P.StaticCallers(fn)
	if len(callers) == 0 {
		// used as a callback (method value): it acts for the functions that hand it out
		refs := c.P.ValueReferrers(fn)
		if len(refs) == 0 {
			return ""
		}
		first := ""
		for _, r := range refs {
			o := ownerThroughCallers(c, r, allowed, depth+1, seen)
			if o == "" {
				return ""
			}
			if first == "" {
				first = o
			}
		}
		return first
	}
	first := ""
	for _, cs := range callers {
		if _, isCall := cs.Instr.(*ssa.Call); !isCall {
			if _, isDefer := cs.Instr.(*ssa.Defer); !isDefer {
				return "" // go statement: runs outside the owner's control flow
			}
		}
		o := ownerThroughCallers(c, cs.Fn, allowed, depth+1, seen)
		if o == "" {
			// the caller itself may be an owner reached through a closure
			return ""
		}
		if first == "" {
			first = o
		}
	}
	return first
}

// expiryNeedsEveryGroupDrained: replica.partition.IsExpire answers "expired" (true) only when no consumer group of the
// family's log was found non-empty: on every path that continues after some group's IsEmpty() returned false, the
// function can only return false. Decided by path-sensitive propagation of boolean constants (eng.BoolOutcomes), so
// the flag may be kept in any boolean form; a flag that is overwritten by a later group's answer, or a path that
// forgets it, is reported.
func expiryNeedsEveryGroupDrained(c *eng.Ctx) {
	ie := c.Fn("replica.partition.IsExpire")
	em := c.One(ie, invokeOn("", "IsEmpty"), "consumerGroup.IsEmpty()")
	for i := 0; i < 1; i++ {
		outs := eng.BoolOutcomes(ie, em.Instr, 0, map[ssa.Value]bool{em.Instr.(ssa.Value): false})
		bad := ""
		for _, o := range outs {
			if !o.Known || o.Val {
				bad += fmt.Sprintf("return at %s can yield %s; ", c.P.InstrPos(o.Ret), map[bool]string{true: "true", false: "an undetermined value"}[o.Known])
			}
		}
		c.Check(len(outs) > 0 && bad == "", fmt.Sprintf("a-non-empty-group-forbids-expiry[%d]", i), em.Instr, ie,
			"once one consumer group still holds unacknowledged entries the partition is reported not expired, whatever the groups visited later answer", bad)
	}
}

// visitsEveryElement: no loop of fn is left early — by break, goto or return — except through a return that reports a
// failure (a non-nil error). A scan that has to consult every source has no such exit: `break` where `continue` was
// meant silently skips the sources that come later.
func visitsEveryElement(c *eng.Ctx, fn *ssa.Function, sub, want string) {
	n, det := 0, ""
	var at ssa.Instruction
	for _, e := range eng.EarlyLoopExits(fn) {
		rb := e.From
		if e.To != nil {
			rb = e.To
		}
		if r, ok := rb.Instrs[len(rb.Instrs)-1].(*ssa.Return); ok && len(r.Results) > 0 && !instrIsSuccessReturn(fn, r) {
			continue
		}
		n++
		det += fmt.Sprintf("block %d leaves the loop headed by block %d; ", e.From.Index, e.Header.Index)
		if at == nil {
			at = e.From.Instrs[len(e.From.Instrs)-1]
		}
	}
	c.Check(n == 0, sub, at, fn, want, det)
}

// abandonOnlyWhenNoKeys: a table builder is abandoned (its file removed, no NewFile record) only when it holds no KEY.
// Builder.Size() is the number of value bytes written so far: it is 0 for a table whose values are all empty, which is a
// legal table (the table layer reads it back fine).  The flush path and the compaction path are siblings and must use the
// same test: Count().
func abandonOnlyWhenNoKeys(c *eng.Ctx) {
	p := c.P
	isCall := func(name string) func(ssa.Value) bool {
		return func(x ssa.Value) bool {
			cl, ok := x.(*ssa.Call)
			return ok && cl.Common().IsInvoke() && cl.Common().Method.Name() == name && strings.HasSuffix(cl.Common().Value.Type().String(), "table.Builder")
		}
	}
	n := 0
	for _, fk := range []string{"kv.storeFlusher.Commit", "kv.compactJob.finishCompactionOutputFile"} {
		f := c.Fn(fk)
		// the decision "this table is kept" = the guards of builder.Close()
		for i, a := range p.Sites(f, invokeOn("uilder", "Close")) {
			n++
			conds, _ := eng.GuardingConds(f, a.Instr)
			byCount, bySize := false, false
			for _, cd := range conds {
				if eng.DependsOn(cd, isCall("Count")) {
					byCount = true
				}
				if eng.DependsOn(cd, isCall("Size")) {
					bySize = true
				}
			}
			c.Check(byCount && !bySize, fmt.Sprintf("%s[%d]", fk, i), a.Instr, f,
				"a table builder is closed into a table file whenever it holds a key (Count() > 0) and dropped only when it holds none; the number of value BYTES (Size()) is 0 for keys stored with empty values, and dropping such a table loses keys whose commit is then reported successful",
				fmt.Sprintf("the decision depends on Count(): %v, on Size(): %v", byCount, bySize))
		}
	}
	c.Check(n >= 2, "keep-or-drop-sites-found", nil, nil, "flush commit and compaction output both decide whether the builder becomes a table file", fmt.Sprintf("%d sites", n))
}

// everyIterationPasses: site s lies in a loop; every iteration of that loop executes s — no `continue` (or other jump to
// the next iteration) bypasses it.  Decided by dominance: s dominates every source of a back edge of the innermost loop
// that contains it.  Leaving the loop (break / return) before s is not judged here.
func everyIterationPasses(c *eng.Ctx, fn *ssa.Function, s eng.Site, sub, want string) {
	// innermost loop header containing s: a block h that dominates s's block, has a back edge, and from which s is in the body
	if s.Instr.Parent() != fn {
		// the site lies in a helper the loop body enters transparently: the call that enters it stands for the site
		// (inside the helper the site must then be passed on every path to a normal return)
		top := eng.TopOf(fn, s)
		g := s.Instr.Parent()
		if g != nil && innermostLoop(g, s.Instr.Block()) != nil {
			// the loop itself moved into the helper: judged there
			everyIterationPasses(c, g, s, sub, want)
			return
		}
		if top == nil || g == nil {
			c.Check(false, sub, s.Instr, fn, want, "the site is not written in the loop's function body (unrecognised shape)")
			return
		}
		if _, bypass := eng.PathExists(eng.PathQuery{Fn: g,
			Target: func(in ssa.Instruction) bool {
				r, ok := in.(*ssa.Return)
				return ok && in.Parent() == g && instrIsSuccessReturn(g, r)
			},
			Blocked: func(in ssa.Instruction) bool { return in == s.Instr }}); bypass {
			c.Check(false, sub, s.Instr, fn, want, "the helper "+c.P.FuncKey(g)+" can return normally without passing the site")
			return
		}
		s = eng.Site{Fn: fn, Instr: top}
	}
	sb := s.Instr.Block()
	header := innermostLoop(fn, sb)
	if header == nil {
		c.Check(false, sub, s.Instr, fn, want, "the site is not inside a loop")
		return
	}
	bad := ""
	for _, pr := range header.Preds {
		if !header.Dominates(pr) {
			continue
		}
		if !(sb.Dominates(pr)) {
			bad += fmt.Sprintf("block %d jumps to the next iteration without passing it; ", pr.Index)
		}
	}
	c.Check(bad == "", sub, s.Instr, fn, want, bad)
}

func reaches(from, to *ssa.BasicBlock) bool { return reachesAvoid(from, to, nil) }

// reachesAvoid: a path from -> to exists that does not pass through avoid (from == avoid is allowed as a start only when from == to is not needed).
func reachesAvoid(from, to, avoid *ssa.BasicBlock) bool {
	seen := map[*ssa.BasicBlock]bool{}
	if avoid != nil && from != avoid {
		seen[avoid] = true
	}
	st := []*ssa.BasicBlock{from}
	for len(st) > 0 {
		x := st[len(st)-1]
		st = st[:len(st)-1]
		if x == to {
			return true
		}
		if seen[x] {
			continue
		}
		seen[x] = true
		st = append(st, x.Succs...)
	}
	return false
}

// innermostLoop returns the header of the innermost natural loop whose body contains block b (nil when b is in no loop).
func innermostLoop(fn *ssa.Function, b *ssa.BasicBlock) *ssa.BasicBlock {
	var header *ssa.BasicBlock
	for _, h := range fn.Blocks {
		if !h.Dominates(b) {
			continue
		}
		isHeader := false
		for _, pr := range h.Preds {
			if h.Dominates(pr) && reachesAvoid(b, pr, h) {
				isHeader = true
			}
		}
		if isHeader && (header == nil || header.Dominates(h)) {
			header = h
		}
	}
	return header
}

// loopsOf lists the headers of all loops containing b, innermost first.
func loopsOf(fn *ssa.Function, b *ssa.BasicBlock) []*ssa.BasicBlock {
	var out []*ssa.BasicBlock
	for _, h := range fn.Blocks {
		if !h.Dominates(b) {
			continue
		}
		for _, pr := range h.Preds {
			if h.Dominates(pr) && reachesAvoid(b, pr, h) {
				out = append(out, h)
				break
			}
		}
	}
	sort.Slice(out, func(i, j int) bool { return out[j].Dominates(out[i]) && out[i] != out[j] })
	return out
}

// groupingIntersectsPerTagKey (shared by C10 and C11): a group-by over several tag keys keeps a series only if it has EVERY key:
// inside the per-key loop of GetGroupingContext the candidate set is intersected with the series of that key alone - the
// intersection is executed in every iteration and its operand is a set that starts empty in every iteration.
func groupingIntersectsPerTagKey(c *eng.Ctx) {
	p := c.P
	f := c.Fn("index.forwardIndex.GetGroupingContext")
	gs := c.One(f, eng.CallTo("index.forwardIndex.getGroupingScanners"), "getGroupingScanners(tagKeyID, …)")
	gtop := eng.TopOf(f, gs)
	if gtop == nil {
		c.Undecided("getGroupingScanners is reached through several call sites")
	}
	loop := innermostLoop(f, gtop.Block())
	if loop == nil {
		c.Undecided("getGroupingScanners is not called in a loop over the group-by tag keys")
	}
	inLoop := func(b *ssa.BasicBlock) bool {
		if b.Parent() != f {
			return false
		}
		for _, h := range loopsOf(f, b) {
			if h == loop {
				return true
			}
		}
		return false
	}
	// the intersections written in GetGroupingContext or in a helper it enters transparently
	ands := p.Sites(f, eng.AnyCallTo("github.com/lindb/roaring.Bitmap.And"))
	n := 0
	for _, a := range ands {
		n++
		top := eng.TopOf(f, a)
		ok := top != nil && innermostLoop(f, top.Block()) == loop
		c.Check(ok, fmt.Sprintf("and-per-key[%d]", n), a.Instr, f,
			"the candidate series are intersected with each tag key's series inside the per-key loop", "the intersection is not a statement of the loop over the group-by tag keys")
		if !ok {
			continue
		}
		everyIterationPasses(c, f, eng.Site{Fn: f, Instr: top}, fmt.Sprintf("and-every-key[%d]", n), "every tag key's iteration reaches the intersection")
		arg := eng.Unwrap(eng.CallArgs(a.Instr.(ssa.CallInstruction))[0])
		if a.Instr.Parent() != f {
			arg = eng.Unwrap(eng.UpParam(arg))
		}
		fresh := false
		detail := "operand " + p.Desc(arg)
		if cl, isCall := arg.(*ssa.Call); isCall && (inLoop(cl.Block()) || cl.Parent() != f) {
			// created in this iteration (in the loop body, or inside the helper that is called per iteration)
			fresh = true
		} else {
			// or the set is emptied at the start of the iteration
			for _, s := range p.Sites(f, eng.AnyCallTo("github.com/lindb/roaring.Bitmap.Clear")) {
				st := eng.TopOf(f, s)
				if st != nil && eng.Unwrap(eng.CallRecv(s.Instr.(ssa.CallInstruction))) == arg && inLoop(st.Block()) &&
					eng.DominatedBy(f, top, []eng.Site{{Fn: f, Instr: st}}, nil) {
					fresh = true
				}
			}
			detail += " is created outside the per-key loop and not cleared in it: it still holds the previous keys' series"
		}
		c.Check(fresh, fmt.Sprintf("operand-fresh-per-key[%d]", n), a.Instr, f, "the operand of the intersection holds the series of the CURRENT tag key only", detail)
	}
	c.Check(n >= 1, "and-found", nil, f, "GetGroupingContext intersects the candidates with the tag keys' series", fmt.Sprintf("%d", n))
}

// existenceProbedBeforeCreate (shared by C05, C06 and C08): "does this queue / group have persisted positions?" is answered by probing the
// meta page FILE; AcquirePage creates that file. The probe therefore runs before the page is acquired on every path - afterwards it is
// always true and a brand-new object reads consumed = acknowledged = 0 (or appended = 0) from the zero-filled page instead of -1.
func existenceProbedBeforeCreate(c *eng.Ctx, fnKey, pageRecv string) {
	p := c.P
	f := c.Fn(fnKey)
	probe := eng.Any(eng.CallTo("var:pkg/queue.existFunc", "pkg/fileutil.Exist"), func(_ *eng.Prog, in ssa.Instruction) bool {
		cl, ok := in.(*ssa.Call)
		return ok && cl.Common().StaticCallee() != nil && cl.Common().StaticCallee().Name() == "Exist"
	})
	probes := p.Sites(f, probe)
	acq := p.Sites(f, invokeOn(pageRecv, "AcquirePage"))
	if len(probes) == 0 || len(acq) == 0 {
		c.Undecided("%s: %d existence probes, %d AcquirePage calls", fnKey, len(probes), len(acq))
	}
	for i, pr := range probes {
		host := f
		if pr.Instr.Parent() == acq[0].Instr.Parent() {
			host = pr.Instr.Parent() // both in one helper
		}
		w, after := eng.Reaches(host, acq[0].Instr, []eng.Site{pr}, nil)
		detail := ""
		if after {
			detail = "the probe at " + p.InstrPos(w) + " can run after AcquirePage created the file"
		}
		c.Check(!after, fmt.Sprintf("probe-before-acquire[%d]", i), pr.Instr, f, "the meta page file is probed before AcquirePage creates it", detail)
	}
	// "existing or new" is decided by the probe alone: no access to the meta page (loading the persisted positions, or writing the
	// initial ones) is conditional on what the page contains - every bit pattern of the positions, all zero included, is a state
	// an existing queue / group can be in
	isMetaIO := func(p *eng.Prog, in ssa.Instruction) bool {
		cl, ok := in.(*ssa.Call)
		return ok && cl.Common().IsInvoke() && (cl.Common().Method.Name() == "ReadUint64" || cl.Common().Method.Name() == "PutUint64")
	}
	isRead := func(x ssa.Value) bool {
		cl, ok := x.(*ssa.Call)
		return ok && cl.Common().IsInvoke() && cl.Common().Method.Name() == "ReadUint64"
	}
	ios := p.Sites(f, isMetaIO)
	if len(ios) < 2 {
		c.Undecided("%s: expected meta page reads and writes, found %d", fnKey, len(ios))
	}
	for i, s := range ios {
		bad := ""
		top := eng.TopOf(f, s)
		if top == nil {
			top = s.Instr
		}
		for _, at := range []ssa.Instruction{s.Instr, top} {
			conds, _ := eng.GuardingConds(at.Parent(), at)
			for _, cd := range conds {
				if eng.DependsOn(cd, isRead) {
					bad = p.Desc(cd)
				}
			}
		}
		c.Check(bad == "", fmt.Sprintf("meta-access-not-conditional-on-content[%d]", i), s.Instr, f,
			"whether the persisted positions are loaded or initial ones are written is decided by the existence probe, never by the content of the meta page", "conditional on "+bad)
	}
}

func keysOfBool(m map[string]bool) string {
	var ks []string
	for k := range m {
		ks = append(ks, k)
	}
	sort.Strings(ks)
	return strings.Join(ks, ", ")
}

// localFuncs: the function literals written in fn, plus the unexported same-package functions fn defers or starts with `go`
// (a deferred / goroutine closure that was given a name).
func localFuncs(fn *ssa.Function) []*ssa.Function {
	out := append([]*ssa.Function{}, fn.AnonFuncs...)
	for _, b := range fn.Blocks {
		for _, in := range b.Instrs {
			var cc *ssa.CallCommon
			switch x := in.(type) {
			case *ssa.Defer:
				cc = x.Common()
			case *ssa.Go:
				cc = x.Common()
			default:
				continue
			}
			g := cc.StaticCallee()
			if g == nil || g.Blocks == nil || g.Parent() != nil || g.Pkg != fn.Pkg {
				continue
			}
			if g.Object() != nil && g.Object().Exported() {
				continue
			}
			out = append(out, g)
		}
	}
	return out
}

// closuresT: fn, the function literals nested in it, and the same for every helper fn enters transparently (a loop body that was
// moved into a helper takes its callbacks with it).
func closuresT(fn *ssa.Function) []*ssa.Function {
	out := append([]*ssa.Function{}, eng.Closures(fn)...)
	seen := map[*ssa.Function]bool{fn: true}
	for _, b := range eng.BlocksT(fn) {
		for _, in := range b.Instrs {
			if g := eng.TransparentCallee(in); g != nil && !seen[g] {
				seen[g] = true
				out = append(out, eng.Closures(g)...)
			}
		}
	}
	return out
}

// liftTransparent: the top-level function fn is written in; when that is an unexported helper with exactly one call site, a
// transparent one, the caller it was extracted from (repeatedly). Used where a rule names "the function that performs X".
func liftTransparent(p *eng.Prog, fn *ssa.Function) *ssa.Function {
	for hop := 0; hop < 3; hop++ {
		for fn.Parent() != nil {
			fn = fn.Parent()
		}
		callers := p.StaticCallers(fn)
		if len(callers) != 1 {
			return fn
		}
		cl, ok := callers[0].Instr.(*ssa.Call)
		if !ok || eng.TransparentCallee(cl) != fn {
			return fn
		}
		fn = callers[0].Fn
	}
	for fn.Parent() != nil {
		fn = fn.Parent()
	}
	return fn
}

// lostLoopError describes one way a function that accumulates an error over the iterations of a loop and returns it can
// forget a failure: a later iteration replaces the accumulated value by a value that may be nil.
type lostLoopError struct {
	At  ssa.Instruction // the phi that merges the replacing value
	Why string
}

// lostLoopErrors analyses the error results of fn: the network of phis the returned error is merged from. For every phi
// of that network that is carried around a loop, the accumulated error is either never set inside the loop (every value
// that comes round is known nil: the loop leaves at the first failure) or sticky (every value that comes round is the
// accumulated value itself, is known non-nil on that edge, or is the result of an unexported helper that is handed the
// accumulated value and hands back that value or a non-nil one). It returns the number of loop-carried phis examined.
func lostLoopErrors(p *eng.Prog, fn *ssa.Function) (carried int, lost []lostLoopError) {
	if fn == nil || len(fn.Blocks) == 0 {
		return 0, nil
	}
	net, order := errPhiNet(fn)
	if len(order) == 0 {
		return 0, nil
	}
	fs := p.MustFacts(fn)
	for _, ph := range order {
		blk := ph.Block()
		nilC := ssa.NewConst(nil, ph.Type())
		type edge struct {
			v                      ssa.Value
			pred                   *ssa.BasicBlock
			self, nonNil, knownNil bool
		}
		var round []edge
		for i, v := range ph.Edges {
			if i >= len(blk.Preds) {
				continue
			}
			pred := blk.Preds[i]
			if !reaches(blk, pred) {
				continue // not carried round a loop
			}
			e := edge{v: v, pred: pred}
			if q, ok := v.(*ssa.Phi); ok && net[q] {
				e.self = true
			} else if eng.IsNilConst(v) {
				e.knownNil = true
			} else if isErrorGlobal(v) {
				e.nonNil = true
			} else if keepsAccumulator(p, v, func(x ssa.Value) bool { q, ok := x.(*ssa.Phi); return ok && net[q] }, 0) {
				e.self = true
			}
			if !e.self && !e.nonNil && !e.knownNil {
				e.nonNil = fs.ProveOnEdge("ne", v, nilC, pred, blk)
				if !e.nonNil {
					e.knownNil = fs.ProveOnEdge("eq", v, nilC, pred, blk)
				}
			}
			round = append(round, e)
		}
		if len(round) == 0 {
			continue
		}
		carried++
		allNil := true
		for _, e := range round {
			if !e.knownNil && !e.self {
				allNil = false
			}
		}
		if allNil {
			// self edges of an all-nil accumulator carry nil too (the network's other phis are examined on their own)
			continue
		}
		for _, e := range round {
			if e.self || e.nonNil {
				continue
			}
			what := "a value that may be nil"
			if e.knownNil {
				what = "nil"
			}
			lost = append(lost, lostLoopError{At: ph, Why: "the accumulated error " + ph.Comment + " is replaced by " + what + " (" + p.Desc(e.v) + ") when the loop comes round from block " + fmt.Sprint(e.pred.Index)})
		}
	}
	return carried, lost
}

// errPhiNet collects the phis the error results of fn are merged from.
func errPhiNet(fn *ssa.Function) (map[*ssa.Phi]bool, []*ssa.Phi) {
	net := map[*ssa.Phi]bool{}
	var order []*ssa.Phi
	var walk func(v ssa.Value)
	walk = func(v ssa.Value) {
		ph, ok := v.(*ssa.Phi)
		if !ok || net[ph] {
			return
		}
		net[ph] = true
		order = append(order, ph)
		for _, e := range ph.Edges {
			walk(e)
		}
	}
	for _, b := range fn.Blocks {
		for _, in := range b.Instrs {
			if r, ok := in.(*ssa.Return); ok {
				for _, x := range r.Results {
					if isErrorType(x.Type()) {
						walk(x)
					}
				}
			}
		}
	}
	return net, order
}

func isErrorGlobal(v ssa.Value) bool { return isNonNilError(v, 0) }

// isNonNilError: a package-level error value, a freshly made error (errors.New / fmt.Errorf), or the result of an unexported
// helper every exit of which returns such a value.
func isNonNilError(v ssa.Value, depth int) bool {
	if u, ok := v.(*ssa.UnOp); ok && u.Op == token.MUL {
		_, isG := u.X.(*ssa.Global)
		return isG // a package-level error value
	}
	if mi, ok := v.(*ssa.MakeInterface); ok {
		_, isConst := mi.X.(*ssa.Const)
		return !isConst
	}
	idx := 0
	cv := v
	if e, ok := cv.(*ssa.Extract); ok {
		idx, cv = e.Index, e.Tuple
	}
	cl, ok := cv.(*ssa.Call)
	if !ok || depth > 3 {
		return false
	}
	if g := cl.Common().StaticCallee(); g != nil && g.Pkg != nil {
		if k := g.Pkg.Pkg.Path() + "." + g.Name(); k == "errors.New" || k == "fmt.Errorf" {
			return true
		}
	}
	g := eng.TransparentCallee(cl)
	if g == nil || len(g.Blocks) == 0 {
		return false
	}
	n := 0
	for _, b := range g.Blocks {
		for _, in := range b.Instrs {
			r, ok := in.(*ssa.Return)
			if !ok || idx >= len(r.Results) {
				continue
			}
			n++
			if !isNonNilError(r.Results[idx], depth+1) {
				return false
			}
		}
	}
	return n > 0
}

// keepsAccumulator: v is the error result of a call of an unexported same-package helper that is handed the accumulated error
// (a value satisfying isAcc) and on every exit returns that parameter, a value known non-nil there, or a merge of such values.
func keepsAccumulator(p *eng.Prog, v ssa.Value, isAcc func(ssa.Value) bool, depth int) bool {
	if depth > 3 {
		return false
	}
	idx := 0
	cv := v
	if e, ok := cv.(*ssa.Extract); ok {
		idx, cv = e.Index, e.Tuple
	}
	cl, ok := cv.(*ssa.Call)
	if !ok {
		return false
	}
	g := eng.TransparentCallee(cl)
	if g == nil || len(g.Blocks) == 0 {
		return false
	}
	var acc *ssa.Parameter
	for i, a := range cl.Common().Args {
		if isAcc(a) && i < len(g.Params) {
			acc = g.Params[i]
		}
	}
	if acc == nil {
		return false
	}
	fs := p.MustFacts(g)
	seen := map[*ssa.Phi]bool{}
	var keeps func(x ssa.Value, pred, blk *ssa.BasicBlock) bool
	keeps = func(x ssa.Value, pred, blk *ssa.BasicBlock) bool {
		if x == ssa.Value(acc) || isErrorGlobal(x) {
			return true
		}
		if ph, ok := x.(*ssa.Phi); ok {
			if seen[ph] {
				return true
			}
			seen[ph] = true
			for i, e := range ph.Edges {
				if i >= len(ph.Block().Preds) || !keeps(e, ph.Block().Preds[i], ph.Block()) {
					return false
				}
			}
			return true
		}
		inG := func(y ssa.Value) bool { q, ok := y.(*ssa.Phi); return y == ssa.Value(acc) || ok && seen[q] }
		if keepsAccumulator(p, x, inG, depth+1) {
			return true
		}
		if eng.IsNilConst(x) || pred == nil {
			return false
		}
		return fs.ProveOnEdge("ne", x, ssa.NewConst(nil, x.Type()), pred, blk)
	}
	n := 0
	for _, b := range g.Blocks {
		for _, in := range b.Instrs {
			r, ok := in.(*ssa.Return)
			if !ok || idx >= len(r.Results) {
				continue
			}
			n++
			x := r.Results[idx]
			if !keeps(x, nil, nil) {
				// a plain value returned from a block that is only reached when it is non-nil
				if len(b.Preds) != 1 || !fs.ProveOnEdge("ne", x, ssa.NewConst(nil, x.Type()), b.Preds[0], b) {
					return false
				}
			}
		}
	}
	return n > 0
}

// topsOf: the instructions of root's own body through which the (transparently found) instruction in is reached: in itself
// when it lies in root, otherwise every call of root whose transparent callee (transitively) contains it. Unlike eng.TopOf
// a helper used at several sites yields all of them.
func topsOf(root *ssa.Function, in ssa.Instruction) []ssa.Instruction {
	if in.Parent() == root {
		return []ssa.Instruction{in}
	}
	var out []ssa.Instruction
	for _, b := range root.Blocks {
		for _, ci := range b.Instrs {
			g := eng.TransparentCallee(ci)
			if g == nil {
				continue
			}
			for _, gb := range eng.BlocksT(g) {
				if gb == in.Block() {
					out = append(out, ci)
					break
				}
			}
		}
	}
	return out
}
