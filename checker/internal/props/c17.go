package props

import (
	"fmt"
	"go/ast"
	"go/constant"
	"go/token"
	"go/types"
	"reflect"
	"sort"
	"strings"

	"golang.org/x/tools/go/packages"
	"golang.org/x/tools/go/ssa"

	"lincheck/internal/eng"
)

func init() {
	register(eng.Property{
		ID:    "C17",
		Title: "A parsed statement survives the wire unchanged",
		Explanation: "Decides writer/reader agreement of the statement's JSON form structurally: every concrete type implementing stmt.Expr has a Marshal case; " +
			"Marshal and Unmarshal use the same set of type tags, each bound to the same Go type; leaf kinds are encoded by the JSON encoder over their " +
			"exported, uniquely json-tagged fields; every field of every structured kind is read in its Marshal case and assigned on its Unmarshal path; " +
			"every field of stmt.Query (and of stmt.MetricMetadata) is copied into the carrier in MarshalJSON and back in UnmarshalJSON through the same carrier " +
			"field, and the copy is not made conditional on anything but that field itself / a decode error; carrier structs have distinct json tags; the leaf " +
			"processor executes exactly the statement it unmarshalled from the request payload and the root sends MarshalJSON of the planned statement; the parser " +
			"(non-generated sql/*.go) contains no map-iteration-ordered construction and no wall-clock/random source other than the `now()` helper.",
		NotDecided: "the JSON library's own round trip of individual values (floats, intervals, escapes), ANTLR's determinism.",
		MinObls:    70,
		Run:        runC17,
	})
}

func constString(info *types.Info, e ast.Expr) (string, bool) {
	tv, ok := info.Types[e]
	if !ok || tv.Value == nil || tv.Value.Kind() != constant.String {
		return "", false
	}
	return constant.StringVal(tv.Value), true
}

func namedOf(t types.Type) *types.Named {
	if p, ok := t.(*types.Pointer); ok {
		t = p.Elem()
	}
	n, _ := types.Unalias(t).(*types.Named)
	return n
}

func jsonTag(tag string) string {
	v := reflect.StructTag(tag).Get("json")
	if i := strings.Index(v, ","); i >= 0 {
		v = v[:i]
	}
	return v
}

func funcDecl(pk *packages.Package, name string, recv string) *ast.FuncDecl {
	for _, f := range pk.Syntax {
		for _, d := range f.Decls {
			fd, ok := d.(*ast.FuncDecl)
			if !ok || fd.Name.Name != name {
				continue
			}
			if recv == "" && fd.Recv == nil {
				return fd
			}
			if recv != "" && fd.Recv != nil && len(fd.Recv.List) == 1 {
				t := fd.Recv.List[0].Type
				if s, ok := t.(*ast.StarExpr); ok {
					t = s.X
				}
				if id, ok := t.(*ast.Ident); ok && id.Name == recv {
					return fd
				}
			}
		}
	}
	return nil
}

func runC17(c *eng.Ctx) {
	p := c.P
	intermediateShipsWhatItPlanned(c)
	enumLoopsReachTheLastConstant(c)
	wireReaderInventsNothing(c)
	exprDecoderOnlyFailsOnDecoding(c)
	pk := p.Package("sql/stmt")
	if pk == nil {
		c.Rule("ENGINE", "load", func() { c.Undecided("package sql/stmt not loaded") })
		return
	}
	info := pk.TypesInfo
	exprIface := p.LookupType("sql/stmt", "Expr")

	// ---- gather the Marshal table ---------------------------------------------------------------------------
	type mcase struct {
		typ      *types.Named
		tags     []string
		leaf     bool // Expr: encoding.JSONMarshal(expr)
		reads    map[string]bool
		carrier  *types.Named
		body     *ast.CaseClause
		usesJSON bool
	}
	marshal := map[string]*mcase{}
	var marshalDecl, unmarshalDecl *ast.FuncDecl
	c.Rule("EXHAUSTIVE", "sql/stmt.Marshal{every Expr kind}", func() {
		marshalDecl = funcDecl(pk, "Marshal", "")
		unmarshalDecl = funcDecl(pk, "Unmarshal", "")
		if marshalDecl == nil || unmarshalDecl == nil || exprIface == nil {
			c.Undecided("stmt.Marshal / stmt.Unmarshal / stmt.Expr not found")
		}
		var ts *ast.TypeSwitchStmt
		ast.Inspect(marshalDecl.Body, func(n ast.Node) bool {
			if t, ok := n.(*ast.TypeSwitchStmt); ok && ts == nil {
				ts = t
			}
			return true
		})
		if ts == nil {
			c.Undecided("Marshal has no type switch")
		}
		// the node being marshalled, whatever it is called: Marshal's first parameter and the variable the type switch binds
		nodeNames := map[string]bool{}
		if marshalDecl.Type.Params != nil && len(marshalDecl.Type.Params.List) > 0 && len(marshalDecl.Type.Params.List[0].Names) > 0 {
			nodeNames[marshalDecl.Type.Params.List[0].Names[0].Name] = true
		}
		if as, ok := ts.Assign.(*ast.AssignStmt); ok && len(as.Lhs) == 1 {
			if id, ok := as.Lhs[0].(*ast.Ident); ok {
				nodeNames[id.Name] = true
			}
		}
		for _, st := range ts.Body.List {
			cc := st.(*ast.CaseClause)
			for _, te := range cc.List {
				n := namedOf(info.TypeOf(te))
				if n == nil {
					continue
				}
				mc := &mcase{typ: n, reads: map[string]bool{}, body: cc}
				// the case body is read with unexported same-package helpers looked through (their parameters stand for the
				// arguments of the call): how the envelope is built does not depend on where the code is written
				var visit func(root ast.Node, subst map[string]ast.Expr, depth int)
				visit = func(root ast.Node, subst map[string]ast.Expr, depth int) {
					res := func(e ast.Expr) ast.Expr {
						for k := 0; k < 4; k++ {
							id, ok := e.(*ast.Ident)
							if !ok {
								break
							}
							r, ok := subst[id.Name]
							if !ok {
								break
							}
							e = r
						}
						return e
					}
					ast.Inspect(root, func(x ast.Node) bool {
						switch v := x.(type) {
						case *ast.KeyValueExpr:
							if id, ok := v.Key.(*ast.Ident); ok && id.Name == "Type" {
								if s, ok := constString(info, res(v.Value)); ok {
									mc.tags = append(mc.tags, s)
								}
							}
							if id, ok := v.Key.(*ast.Ident); ok && id.Name == "Expr" {
								val := res(v.Value)
								if call, ok := val.(*ast.CallExpr); ok {
									if sel, ok := call.Fun.(*ast.SelectorExpr); ok && sel.Sel.Name == "JSONMarshal" && len(call.Args) == 1 {
										if a, ok := res(call.Args[0]).(*ast.Ident); ok {
											if nodeNames[a.Name] {
												mc.leaf = true
											}
										}
									}
								}
							}
						case *ast.AssignStmt:
							// the envelope built field by field: inner.Type = "tag"; inner.Expr = …
							for i, l := range v.Lhs {
								sel, ok := l.(*ast.SelectorExpr)
								if !ok || i >= len(v.Rhs) {
									continue
								}
								if cn := namedOf(info.TypeOf(sel.X)); cn != nil && strings.HasPrefix(cn.Obj().Name(), "inner") {
									mc.carrier = cn
								}
								if sel.Sel.Name == "Type" {
									if s, ok := constString(info, res(v.Rhs[i])); ok {
										mc.tags = append(mc.tags, s)
									}
								}
							}
						case *ast.ValueSpec:
							if v.Type != nil {
								if cn := namedOf(info.TypeOf(v.Type)); cn != nil && strings.HasPrefix(cn.Obj().Name(), "inner") {
									mc.carrier = cn
								}
							}
						case *ast.SelectorExpr:
							if id, ok := res(v.X).(*ast.Ident); ok && nodeNames[id.Name] {
								mc.reads[v.Sel.Name] = true
							}
						case *ast.CompositeLit:
							if cn := namedOf(info.TypeOf(v)); cn != nil && strings.HasPrefix(cn.Obj().Name(), "inner") {
								mc.carrier = cn
							}
						case *ast.CallExpr:
							if sel, ok := v.Fun.(*ast.SelectorExpr); ok && sel.Sel.Name == "JSONMarshal" {
								mc.usesJSON = true
							}
							if id, ok := v.Fun.(*ast.Ident); ok && depth < 2 && !ast.IsExported(id.Name) {
								if hd := funcDecl(pk, id.Name, ""); hd != nil && hd.Body != nil && hd.Type.Params != nil {
									sub2 := map[string]ast.Expr{}
									i := 0
									for _, fld := range hd.Type.Params.List {
										for _, nm := range fld.Names {
											if i < len(v.Args) {
												sub2[nm.Name] = res(v.Args[i])
											}
											i++
										}
									}
									// single-assignment locals of the helper stand for their initialiser
									ast.Inspect(hd.Body, func(y ast.Node) bool {
										if as, ok := y.(*ast.AssignStmt); ok && as.Tok == token.DEFINE && len(as.Lhs) == 1 && len(as.Rhs) == 1 {
											if lid, ok := as.Lhs[0].(*ast.Ident); ok {
												if _, dup := sub2[lid.Name]; !dup {
													sub2[lid.Name] = as.Rhs[0]
												}
											}
										}
										return true
									})
									visit(hd.Body, sub2, depth+1)
								}
							}
						}
						return true
					})
				}
				visit(cc, map[string]ast.Expr{}, 0)
				marshal[n.Obj().Name()] = mc
			}
		}
		// every implementer of stmt.Expr in the program
		iface := exprIface.Underlying().(*types.Interface)
		n := 0
		for _, lp := range p.Pkgs {
			if !strings.HasPrefix(lp.PkgPath, strings.TrimSuffix(eng.ModPrefix, "/")) {
				continue
			}
			sc := lp.Types.Scope()
			for _, name := range sc.Names() {
				tn, ok := sc.Lookup(name).(*types.TypeName)
				if !ok || tn.IsAlias() {
					continue
				}
				if _, isI := tn.Type().Underlying().(*types.Interface); isI {
					continue
				}
				if types.Implements(types.NewPointer(tn.Type()), iface) || types.Implements(tn.Type(), iface) {
					n++
					_, has := marshal[name]
					c.Check(has && lp.PkgPath == pk.PkgPath, "case:"+eng.ShortPkg(lp.PkgPath)+"."+name, nil, nil,
						"every concrete type implementing stmt.Expr has a case in stmt.Marshal (otherwise the node is silently encoded as nothing)", "no case for "+name)
				}
			}
		}
		if n < 12 {
			c.Undecided("expected >= 12 Expr implementations, found %d", n)
		}
	})

	// ---- Unmarshal table ---------------------------------------------------------------------------------------
	unm := map[string]string{} // tag -> type name
	helperFor := map[string]string{}
	bodyFor := map[string]ast.Node{} // tag -> the dispatch branch that handles it (a case clause or the body of an if)
	c.Rule("LAYOUT", "sql/stmt.Marshal<->Unmarshal{tags}", func() {
		if unmarshalDecl == nil {
			c.Undecided("Unmarshal not found")
		}
		// the dispatch on constant tags: switches (possibly several) or chains of `x == "tag"` tests, written in Unmarshal or in an
		// unexported helper it hands the decoded envelope to
		type dclause struct {
			tags []ast.Expr
			body ast.Node
		}
		var dcl []dclause
		var scan func(body ast.Node, depth int)
		seenFn := map[string]bool{}
		scan = func(body ast.Node, depth int) {
			ast.Inspect(body, func(n ast.Node) bool {
				switch x := n.(type) {
				case *ast.SwitchStmt:
					if x.Tag != nil {
						for _, st := range x.Body.List {
							cc := st.(*ast.CaseClause)
							if len(cc.List) > 0 {
								dcl = append(dcl, dclause{cc.List, cc})
							}
						}
					}
				case *ast.IfStmt:
					if be, ok := x.Cond.(*ast.BinaryExpr); ok && be.Op == token.EQL {
						for _, side := range []ast.Expr{be.X, be.Y} {
							if _, isC := constString(info, side); isC {
								dcl = append(dcl, dclause{[]ast.Expr{side}, x.Body})
							}
						}
					}
				case *ast.CallExpr:
					if id, ok := x.Fun.(*ast.Ident); ok && depth < 2 && !ast.IsExported(id.Name) && !seenFn[id.Name] {
						if hd := funcDecl(pk, id.Name, ""); hd != nil && hd.Body != nil {
							seenFn[id.Name] = true
							scan(hd.Body, depth+1)
						}
					}
				}
				return true
			})
		}
		scan(unmarshalDecl.Body, 0)
		if len(dcl) == 0 {
			c.Undecided("Unmarshal has no dispatch on constant tags")
		}
		resultType := func(n ast.Node) string {
			t := ""
			ast.Inspect(n, func(x ast.Node) bool {
				if cl, ok := x.(*ast.CompositeLit); ok && t == "" {
					if nn := namedOf(info.TypeOf(cl)); nn != nil && !strings.HasPrefix(nn.Obj().Name(), "inner") && nn.Obj().Name() != "exprData" {
						t = nn.Obj().Name()
					}
				}
				return true
			})
			return t
		}
		for _, dc := range dcl {
			cc := dc.body
			for _, te := range dc.tags {
				tag, ok := constString(info, te)
				if !ok {
					c.Check(false, "const-tag", nil, nil, "Unmarshal dispatches on constant tags", "non-constant case")
					continue
				}
				bodyFor[tag] = cc
				t := resultType(cc)
				if t == "" {
					// helper call
					ast.Inspect(cc, func(x ast.Node) bool {
						if call, ok := x.(*ast.CallExpr); ok {
							if id, ok := call.Fun.(*ast.Ident); ok && strings.HasPrefix(id.Name, "unmarshal") && id.Name != "unmarshal" {
								if hd := funcDecl(pk, id.Name, ""); hd != nil {
									t = resultType(hd.Body)
									helperFor[tag] = id.Name
								}
							}
						}
						return true
					})
				}
				unm[tag] = t
			}
		}
		mt := map[string]string{}
		for name, mc := range marshal {
			c.Check(len(mc.tags) == 1, "one-tag:"+name, nil, nil, "each Marshal case writes exactly one type tag", fmt.Sprintf("tags %v", mc.tags))
			for _, t := range mc.tags {
				if prev, dup := mt[t]; dup {
					c.Check(false, "unique-tag:"+t, nil, nil, "a type tag denotes one kind", "used by "+prev+" and "+name)
				}
				mt[t] = name
			}
		}
		var tags []string
		for t := range mt {
			tags = append(tags, t)
		}
		sort.Strings(tags)
		for _, t := range tags {
			c.Check(unm[t] == mt[t], "tag:"+t, nil, nil, "the tag Marshal writes for a kind is dispatched by Unmarshal to the same Go type", fmt.Sprintf("Marshal binds %q to %s, Unmarshal to %q", t, mt[t], unm[t]))
		}
		for t, ty := range unm {
			if _, ok := mt[t]; !ok {
				c.Check(false, "reader-only-tag:"+t, nil, nil, "Unmarshal has no tag that Marshal never writes", "tag "+t+" -> "+ty)
			}
		}
	})

	// ---- field coverage per kind -----------------------------------------------------------------------------------
	c.Rule("LAYOUT", "sql/stmt.Expr kinds{field coverage}", func() {
		var names []string
		for n := range marshal {
			names = append(names, n)
		}
		sort.Strings(names)
		for _, name := range names {
			mc := marshal[name]
			st, _ := mc.typ.Underlying().(*types.Struct)
			if st == nil {
				continue
			}
			structured := false
			for i := 0; i < st.NumFields(); i++ {
				ft := st.Field(i).Type()
				if types.Identical(ft, exprIface) || strings.Contains(ft.String(), "stmt.Expr") {
					structured = true
				}
			}
			if !structured {
				c.Check(mc.leaf && mc.usesJSON, "leaf-json:"+name, nil, nil,
					"a leaf kind is encoded by the JSON encoder over the node itself (Expr: encoding.JSONMarshal(expr))", "the case does not pass the node to encoding.JSONMarshal")
				seen := map[string]string{}
				for i := 0; i < st.NumFields(); i++ {
					f := st.Field(i)
					jt := jsonTag(st.Tag(i))
					c.Check(f.Exported() && jt != "" && jt != "-", "leaf-field:"+name+"."+f.Name(), nil, nil, "every field of a leaf kind is exported and json-tagged (so it is carried)", "field "+f.Name()+" tag "+st.Tag(i))
					if prev, dup := seen[jt]; dup {
						c.Check(false, "leaf-tag-unique:"+name+"."+f.Name(), nil, nil, "json tags inside a kind are distinct", "tag "+jt+" also on "+prev)
					}
					seen[jt] = f.Name()
				}
				// reader: unmarshal(&expr, &T{}) decodes expr.Expr into T
				continue
			}
			// structured kind: each field read in Marshal and assigned on the Unmarshal path
			tag := ""
			if len(mc.tags) > 0 {
				tag = mc.tags[0]
			}
			assigned := map[string]bool{}
			var body ast.Node
			if h, ok := helperFor[tag]; ok {
				if hd := funcDecl(pk, h, ""); hd != nil {
					body = hd.Body
				}
			} else if b, ok := bodyFor[tag]; ok {
				// handled in the dispatch branch itself
				body = b
			}
			if body != nil {
				ast.Inspect(body, func(x ast.Node) bool {
					switch v := x.(type) {
					case *ast.CompositeLit:
						if nn := namedOf(info.TypeOf(v)); nn != nil && nn.Obj().Name() == name {
							for _, el := range v.Elts {
								if kv, ok := el.(*ast.KeyValueExpr); ok {
									if id, ok := kv.Key.(*ast.Ident); ok {
										assigned[id.Name] = true
									}
								}
							}
						}
					case *ast.AssignStmt:
						for _, l := range v.Lhs {
							if sel, ok := l.(*ast.SelectorExpr); ok {
								if nn := namedOf(info.TypeOf(sel.X)); nn != nil && nn.Obj().Name() == name {
									assigned[sel.Sel.Name] = true
								}
							}
						}
					}
					return true
				})
			}
			for i := 0; i < st.NumFields(); i++ {
				f := st.Field(i)
				c.Check(mc.reads[f.Name()], "marshal-reads:"+name+"."+f.Name(), nil, nil, "Marshal's case for "+name+" reads field "+f.Name(), "field never read in the case")
				c.Check(assigned[f.Name()], "unmarshal-sets:"+name+"."+f.Name(), nil, nil, "the Unmarshal path for "+name+" sets field "+f.Name(), "field never assigned")
			}
		}
		// carriers: distinct json tags, all tagged
		for _, cn := range []string{"exprData", "innerSelectItem", "innerOrderByExpr", "innerCallExpr", "innerBinaryExpr", "innerQuery"} {
			nt := p.LookupType("sql/stmt", cn)
			if nt == nil {
				c.Check(false, "carrier:"+cn, nil, nil, "carrier struct "+cn+" exists", "not found")
				continue
			}
			st := nt.Underlying().(*types.Struct)
			seen := map[string]string{}
			for i := 0; i < st.NumFields(); i++ {
				f := st.Field(i)
				if f.Embedded() {
					continue
				}
				jt := jsonTag(st.Tag(i))
				okk := f.Exported() && jt != "" && jt != "-"
				if prev, dup := seen[jt]; dup {
					okk = false
					_ = prev
				}
				seen[jt] = f.Name()
				c.Check(okk, "carrier-field:"+cn+"."+f.Name(), nil, nil, "carrier fields are exported with distinct json tags", "field "+f.Name()+" tag `"+st.Tag(i)+"`")
			}
		}
	})

	// ---- stmt.Query / MetricMetadata field coverage (SSA: value flow + unconditional copy) ----------------------------------
	coverage := func(typeName, carrier string) {
		c.Rule("LAYOUT", "sql/stmt."+typeName+"{MarshalJSON<->UnmarshalJSON}", func() {
			nt := p.LookupType("sql/stmt", typeName)
			mj := c.Fn("sql/stmt." + typeName + ".MarshalJSON")
			uj := c.Fn("sql/stmt." + typeName + ".UnmarshalJSON")
			st := nt.Underlying().(*types.Struct)
			tkey := "sql/stmt." + typeName + "."
			ckey := "sql/stmt." + carrier + "."
			isErrCond := func(v ssa.Value) bool {
				bo, ok := v.(*ssa.BinOp)
				if !ok {
					return false
				}
				return (eng.IsNilConst(bo.X) || eng.IsNilConst(bo.Y)) && (strings.Contains(bo.X.Type().String(), "error") || strings.Contains(bo.Y.Type().String(), "error"))
			}
			for i := 0; i < st.NumFields(); i++ {
				f := st.Field(i).Name()
				// marshal: a store into carrier.G whose value derives from q.F, unguarded (except by F itself)
				var g string
				okM := false
				whyM := "no store into the carrier derives from " + f
				for _, s := range p.Sites(mj, func(p *eng.Prog, in ssa.Instruction) bool {
					stt, ok := in.(*ssa.Store)
					if !ok {
						return false
					}
					fa, ok := stt.Addr.(*ssa.FieldAddr)
					return ok && strings.HasPrefix(eng.FieldKeyOfAddr(fa), ckey)
				}) {
					stt := s.Instr.(*ssa.Store)
					if !eng.DependsOnField(stt.Val, tkey+f) {
						continue
					}
					conds, _ := eng.GuardingConds(mj, s.Instr)
					bad := ""
					for _, cd := range conds {
						if !eng.DependsOnField(cd, tkey+f) {
							bad = p.Desc(cd)
						}
						// a test of the field itself may skip the copy only when it is a test for the field's ZERO value (what the receiving
						// side starts from): a comparison of the field / its length with 0, "" or nil. Any other predicate over the field
						// (a method such as IsEmpty()) can be true for values that are not the zero value, which are then lost on the wire.
						if eng.DependsOnField(cd, tkey+f) && !isLoopCondOn(cd, tkey+f) && !isZeroValueTest(cd) {
							bad = p.Desc(cd) + " (not a comparison with the zero value)"
						}
					}
					if bad != "" {
						whyM = "the copy of " + f + " is conditional on " + bad
						continue
					}
					k := eng.FieldKeyOfAddr(stt.Addr.(*ssa.FieldAddr))
					g = k[strings.LastIndex(k, ".")+1:]
					okM = true
				}
				c.Check(okM, "marshal:"+f, nil, mj, typeName+"."+f+" is copied into the wire carrier unconditionally (only its own emptiness may skip it)", whyM)
				// unmarshal: a store to q.F deriving from carrier.G, guarded only by conditions on carrier.G or errors
				okU := false
				whyU := "no store to " + f + " derives from the carrier"
				for _, s := range p.Sites(uj, eng.StoreField(tkey+f)) {
					stt, ok := s.Instr.(*ssa.Store)
					if !ok {
						continue
					}
					src := ""
					eng.WalkExpr(stt.Val, func(x ssa.Value) bool {
						if fa, ok := x.(*ssa.FieldAddr); ok && strings.HasPrefix(eng.FieldKeyOfAddr(fa), ckey) {
							k := eng.FieldKeyOfAddr(fa)
							src = k[strings.LastIndex(k, ".")+1:]
						}
						return true
					})
					if src == "" {
						continue
					}
					if g != "" && src != g {
						whyU = f + " is restored from carrier field " + src + " but was written to " + g
						continue
					}
					conds, _ := eng.GuardingConds(uj, s.Instr)
					bad := ""
					for _, cd := range conds {
						if !eng.DependsOnField(cd, ckey+src) && !isErrCond(cd) && !isAnyLoopCond(cd) {
							bad = p.Desc(cd)
						}
					}
					if bad != "" {
						whyU = "restoring " + f + " is conditional on " + bad
						continue
					}
					okU = true
				}
				if !okU {
					// restored through a helper that is handed &q.F and the carrier field (unmarshalOptionalExpr(inner.F, &q.F))
					for _, b := range uj.Blocks {
						for _, in := range b.Instrs {
							cl, isCall := in.(*ssa.Call)
							if !isCall {
								continue
							}
							hg := eng.TransparentCallee(in)
							if hg == nil {
								continue
							}
							target, from, src := -1, -1, ""
							for ai, a := range cl.Common().Args {
								if fa, ok := a.(*ssa.FieldAddr); ok && eng.FieldKeyOfAddr(fa) == tkey+f {
									target = ai
									continue
								}
								eng.WalkExpr(a, func(x ssa.Value) bool {
									if fa, ok := x.(*ssa.FieldAddr); ok && strings.HasPrefix(eng.FieldKeyOfAddr(fa), ckey) {
										k := eng.FieldKeyOfAddr(fa)
										src = k[strings.LastIndex(k, ".")+1:]
										from = ai
									}
									return true
								})
							}
							if target < 0 || from < 0 || target >= len(hg.Params) || from >= len(hg.Params) {
								continue
							}
							onParam := func(v ssa.Value) bool {
								hit := false
								eng.WalkExpr(v, func(x ssa.Value) bool {
									if x == ssa.Value(hg.Params[from]) {
										hit = true
									}
									return true
								})
								return hit
							}
							if g != "" && src != g {
								whyU = f + " is restored from carrier field " + src + " but was written to " + g
								continue
							}
							// the helper stores through that parameter
							stores := false
							for _, gb := range hg.Blocks {
								for _, gi := range gb.Instrs {
									hst, ok := gi.(*ssa.Store)
									if !ok || hst.Addr != ssa.Value(hg.Params[target]) || !onParam(hst.Val) {
										continue
									}
									hconds, _ := eng.GuardingConds(hg, gi)
									clean := true
									for _, cd := range hconds {
										if !onParam(cd) && !isErrCond(cd) {
											clean = false
										}
									}
									if clean {
										stores = true
									}
								}
							}
							conds, _ := eng.GuardingConds(uj, in)
							bad := ""
							for _, cd := range conds {
								if !eng.DependsOnField(cd, ckey+src) && !isErrCond(cd) && !isAnyLoopCond(cd) {
									bad = p.Desc(cd)
								}
							}
							if stores && bad == "" {
								okU = true
							}
						}
					}
				}
				c.Check(okU, "unmarshal:"+f, nil, uj, typeName+"."+f+" is restored from the same carrier field, unconditionally up to decode errors / emptiness of that field", whyU)
			}
			// the bytes returned are the JSON of that carrier
			for i, r := range eng.SuccessReturns(mj) {
				v := eng.RetVal(r, 0)
				c.Check(strings.Contains(p.Desc(v), "JSONMarshal"), fmt.Sprintf("encodes-carrier[%d]", i), r, mj, "MarshalJSON returns the JSON encoding of the carrier", "returns "+p.Desc(v))
			}
		})
	}
	coverage("Query", "innerQuery")
	// ---- a built statement owns its lists: no parser buffer is recycled ---------------------------------------------------------------------
	// (build() hands the parser's slices to the statement it returns; a parser that is pooled and keeps `buf[:0]` of such a slice
	// makes the next parse overwrite the group-by / select list of a statement that is still being planned or marshalled)
	c.Rule("PROV", "sql{no parser slice is re-sliced to length 0 for reuse}", func() {
		n, fns := 0, 0
		for _, fn := range p.FuncsWithPrefix("sql.") {
			fns++
			for _, b := range fn.Blocks {
				for _, in := range b.Instrs {
					sl, ok := in.(*ssa.Slice)
					if !ok || sl.High == nil || sl.Max != nil {
						continue
					}
					if k, isC := eng.ConstInt(sl.High); !isC || k != 0 {
						continue
					}
					if _, isStr := sl.X.Type().Underlying().(*types.Basic); isStr {
						continue
					}
					fromField := false
					eng.WalkExpr(sl.X, func(x ssa.Value) bool {
						if fa, ok := x.(*ssa.FieldAddr); ok && strings.HasPrefix(eng.FieldKeyOfAddr(fa), "sql.") {
							fromField = true
						}
						return true
					})
					if !fromField {
						continue
					}
					n++
					c.Check(false, fmt.Sprintf("recycled-parser-slice@%s[%d]", p.FuncKey(fn), n), sl, fn, "no field of a statement parser is re-sliced to length 0 and filled again: the statement built from the previous contents still refers to that array", "re-slices "+p.Desc(sl.X))
				}
			}
		}
		if fns < 50 {
			c.Undecided("expected >= 50 functions in package sql, found %d", fns)
		}
		c.Check(true, "scanned", nil, nil, fmt.Sprintf("%d functions of package sql scanned, %d recycled slice(s)", fns, n), "")
	})

	// ---- the receiving side adds no refusal of its own: what the parser accepted and Marshal wrote, UnmarshalJSON reads ----------------
	// (a bound on nesting / length / count that only the receiver enforces makes the leaf reject statements the root planned)
	c.Rule("ERRFLOW", "sql/stmt.Query.UnmarshalJSON{fails only when a decoder fails}", func() {
		errorsOnlyFrom(c, "sql/stmt.Query.UnmarshalJSON",
			eng.Any(eng.AnyCallTo("github.com/lindb/common/pkg/encoding.JSONUnmarshal"), eng.CallTo("sql/stmt.Unmarshal"), eng.CallTo("encoding/json.Unmarshal")),
			"JSONUnmarshal / stmt.Unmarshal")
	})
	if p.Func("sql/stmt.MetricMetadata.MarshalJSON") != nil {
		coverage("MetricMetadata", "innerMetadata")
	}

	// ---- the statement that travels is the statement that is executed --------------------------------------------------------
	c.Rule("PROV", "query{root sends MarshalJSON, leaf executes Unmarshal(payload)}", func() {
		lf := c.Fn("query.leafTaskProcessor.processDataSearch")
		un := c.One(lf, eng.CallTo("sql/stmt.Query.UnmarshalJSON"), "stmtQuery.UnmarshalJSON(req.Payload)")
		a := eng.CallArgs(un.Instr.(*ssa.Call))
		c.Check(strings.HasSuffix(p.Desc(a[0]), ".Payload"), "decodes-payload", un.Instr, lf, "the leaf decodes the request payload", "decodes "+p.Desc(a[0]))
		mk := c.One(lf, eng.CallTo("query/context.NewLeafExecuteContext"), "NewLeafExecuteContext(…, &stmtQuery, …)")
		recv := eng.CallRecv(un.Instr.(*ssa.Call))
		found := false
		for _, x := range eng.CallArgs(mk.Instr.(*ssa.Call)) {
			if x == recv {
				found = true
			}
		}
		c.Check(found, "executes-decoded-statement", mk.Instr, lf, "the statement executed by the leaf is the object that was decoded", "")
		okd, why := eng.OkDominates(lf, un.Instr, mk.Instr)
		c.Check(okd, "execute-only-if-decoded", mk.Instr, lf, "execution starts only after a successful decode", why)
		// root side
		n := 0
		for _, fn := range p.FuncsWithPrefix("query/context.") {
			for _, s := range p.SitesDirect(fn, eng.AnyCallTo("sql/stmt.Query.MarshalJSON")) {
				n++
				c.Check(true, "root-marshals:"+p.FuncKey(fn), s.Instr, fn, "the planned statement is serialised with MarshalJSON", "")
			}
		}
		if n == 0 {
			c.Check(false, "root-marshals", nil, nil, "the root/intermediate context serialises the statement with Query.MarshalJSON", "no call found under query/context")
		}
	})

	// ---- the parser never hands out an operator node with a missing operand -------------------------------------------------------------
	operandsPresent := func(fnName string, fields []string) {
		c.Rule("GUARD", "sql.queryStmtParser."+fnName+"{operands present}", func() {
			// the grammar lets a duration literal or `*` stand where a field expression is expected (select f+1m …, select (1m) …);
			// visitExprAtom ignores such atoms, so the Paren / Binary node popped at the end of the production has a nil child:
			// it marshals as `null` and the leaf can not read the statement back.  Necessary condition: the node popped as complete
			// is tested for nil operands (and the statement refused) before it becomes a parameter or a select item.
			f := c.Fn("sql.queryStmtParser." + fnName)
			checked := map[string]bool{}
			for _, b := range eng.BlocksT(f) {
				for _, in := range b.Instrs {
					bo, ok := in.(*ssa.BinOp)
					if !ok || bo.Op != token.EQL && bo.Op != token.NEQ {
						continue
					}
					if strings.HasSuffix(p.FuncKey(in.Parent()), ".setExprParam") {
						continue // setExprParam tests Left/Right to decide WHERE a parameter goes, not whether the node is complete
					}
					var other ssa.Value
					if eng.IsNilConst(bo.X) {
						other = bo.Y
					} else if eng.IsNilConst(bo.Y) {
						other = bo.X
					} else {
						continue
					}
					for _, k := range fields {
						// the value compared with nil is the field itself, not something computed from it (e.g. an error built from it)
						if isErrorType(other.Type()) {
							continue
						}
						isField := false
						eng.WalkExpr(other, func(x ssa.Value) bool {
							switch y := x.(type) {
							case *ssa.UnOp:
								if fa, ok := y.X.(*ssa.FieldAddr); ok && eng.FieldKeyOfAddr(fa) == k {
									isField = true
								}
								return true
							case *ssa.Phi, *ssa.ChangeInterface, *ssa.MakeInterface, *ssa.TypeAssert, *ssa.Extract, *ssa.Parameter:
								return true
							}
							return false
						})
						if isField {
							checked[k] = true
						}
					}
				}
			}
			for _, k := range fields {
				c.Check(checked[k], "nil-operand-refused:"+k, nil, f,
					"a parenthesised / binary expression is completed only with its operands present ("+k+" tested against nil): a statement with a missing operand is refused by the parser instead of being sent to the leaves in a form they can not decode",
					"no nil test of "+k+" in "+fnName+" (or its helpers)")
			}
		})
	}
	operandsPresent("completeFieldExpr", []string{"sql/stmt.ParenExpr.Expr", "sql/stmt.BinaryExpr.Left", "sql/stmt.BinaryExpr.Right"})
	// F37: the comparison / logical node of a HAVING clause is completed by completeBoolExpr
	operandsPresent("completeBoolExpr", []string{"sql/stmt.BinaryExpr.Left", "sql/stmt.BinaryExpr.Right"})
	// F41: an order-by item whose expression is a duration, `*` or a number has no expression at all
	operandsPresent("completeSortField", []string{"sql/stmt.OrderByExpr.Expr"})

	// every number the parser puts into a statement is the result of a (checked) conversion of the text: a value the parser COMPUTES
	// (constant folding: 1/0, 0/0, an overflowing product) may be Inf / NaN, which has no JSON form
	c.Rule("PROV", "sql{number literals of a parsed statement are converted from the text}", func() {
		n := 0
		for _, fn := range p.FuncsWithPrefix("sql.") {
			for _, s := range p.SitesDirect(fn, eng.StoreField("sql/stmt.NumberLiteral.Val")) {
				n++
				v := s.Instr.(*ssa.Store).Val
				conv := eng.DependsOn(v, func(x ssa.Value) bool {
					cl, ok := x.(*ssa.Call)
					return ok && cl.Common().StaticCallee() != nil && cl.Common().StaticCallee().Name() == "ParseFloat"
				})
				arith := eng.DependsOn(v, func(x ssa.Value) bool {
					bo, ok := x.(*ssa.BinOp)
					if !ok {
						return false
					}
					switch bo.Op {
					case token.ADD, token.SUB, token.MUL, token.QUO:
						bt, isBasic := bo.Type().Underlying().(*types.Basic)
						return isBasic && bt.Info()&types.IsFloat != 0
					}
					return false
				})
				finite := false
				conds, _ := eng.GuardingConds(fn, s.Instr)
				for _, cd := range conds {
					if eng.DependsOn(cd, func(x ssa.Value) bool {
						cl, ok := x.(*ssa.Call)
						return ok && cl.Common().StaticCallee() != nil && (cl.Common().StaticCallee().Name() == "IsInf" || cl.Common().StaticCallee().Name() == "IsNaN")
					}) {
						finite = true
					}
				}
				c.Check(conv && !arith || finite, fmt.Sprintf("value-from-the-text@%s[%d]", p.FuncKey(fn), n), s.Instr, fn,
					"the value of a number literal is what ParseFloat returned for the text (its error is examined, F37), or it is tested to be finite", "value "+p.Desc(v))
			}
		}
		c.Check(n >= 1, "number-literals-built", nil, nil, "the parser builds number literals", fmt.Sprintf("%d", n))
	})

	// F37: a number the parser can not represent is refused, not replaced (an overflowing literal becomes +Inf, which has no JSON form)
	c.Rule("ERRFLOW", "sql{a literal that does not convert is a parse error}", func() {
		n := 0
		for _, fn := range p.FuncsWithPrefix("sql.") {
			for _, s := range p.SitesDirect(fn, eng.CallTo("strconv.ParseFloat", "strconv.ParseInt", "strconv.ParseUint", "strconv.Atoi", "strconv.ParseBool")) {
				n++
				cl := s.Instr.(*ssa.Call)
				used := false
				for _, r := range *cl.Referrers() {
					if ex, ok := r.(*ssa.Extract); ok && ex.Index == 1 && ex.Referrers() != nil && len(*ex.Referrers()) > 0 {
						used = true
					}
				}
				c.Check(used, fmt.Sprintf("conversion-error-examined@%s[%d]", p.FuncKey(fn), n), s.Instr, fn,
					"the error of a literal's conversion is examined: a value that does not fit (e.g. a 400-digit number -> +Inf) must fail the parse, because the statement would not survive the wire",
					"the error result of "+p.Desc(cl)+" is discarded")
			}
		}
		c.Check(n >= 3, "conversions-found", nil, nil, "the parser converts literals with strconv", fmt.Sprintf("%d", n))
	})

	// ---- custom wire forms: encoder and decoder of one type are inverse by construction, and no number is narrowed on the way ---------
	c.Rule("SYMMETRY", "sql/stmt{MarshalJSON / UnmarshalJSON pairs: same codec, no narrowing}", func() {
		pk := p.Package("sql/stmt")
		if pk == nil {
			c.Undecided("package sql/stmt not loaded")
		}
		isEnc := func(cl *ssa.Call) bool {
			for _, k := range p.CalleeKeys(cl) {
				if strings.HasSuffix(k, "encoding.JSONMarshal") || k == "encoding/json.Marshal" || strings.HasSuffix(k, "Marshal") && strings.Contains(k, "json") {
					return true
				}
			}
			return false
		}
		isDec := func(cl *ssa.Call) bool {
			for _, k := range p.CalleeKeys(cl) {
				if strings.HasSuffix(k, "encoding.JSONUnmarshal") || k == "encoding/json.Unmarshal" || strings.HasSuffix(k, "Unmarshal") && strings.Contains(k, "json") {
					return true
				}
			}
			return false
		}
		has := func(f *ssa.Function, pred func(*ssa.Call) bool) bool {
			for _, b := range eng.BlocksT(f) {
				for _, in := range b.Instrs {
					if cl, ok := in.(*ssa.Call); ok && pred(cl) {
						return true
					}
				}
			}
			return false
		}
		nPairs := 0
		scope := pk.Types.Scope()
		names := scope.Names()
		sort.Strings(names)
		for _, name := range names {
			tn, ok := scope.Lookup(name).(*types.TypeName)
			if !ok {
				continue
			}
			mj := p.Func("sql/stmt." + name + ".MarshalJSON")
			uj := p.Func("sql/stmt." + name + ".UnmarshalJSON")
			if mj == nil && uj == nil {
				continue
			}
			_ = tn
			if mj == nil || uj == nil {
				c.Check(false, "pair-complete:"+name, nil, nil, "a type with a custom wire form has both MarshalJSON and UnmarshalJSON", fmt.Sprintf("MarshalJSON: %v, UnmarshalJSON: %v", mj != nil, uj != nil))
				continue
			}
			nPairs++
			if has(mj, isEnc) {
				c.Check(has(uj, isDec), "decoder-matches-encoder:"+name, nil, uj,
					"a value written with the JSON encoder (which escapes <, >, & and quotes) is read back with the JSON decoder, not by comparing raw bytes with a hand-made literal",
					"MarshalJSON uses the JSON encoder, UnmarshalJSON never calls the JSON decoder")
			}
			for _, g := range []*ssa.Function{mj, uj} {
				for _, b := range eng.BlocksT(g) {
					for _, in := range b.Instrs {
						cv, ok := in.(*ssa.Convert)
						if !ok {
							continue
						}
						from, okF := cv.X.Type().Underlying().(*types.Basic)
						to, okT := cv.Type().Underlying().(*types.Basic)
						if !okF || !okT || from.Info()&types.IsInteger == 0 || to.Info()&types.IsInteger == 0 {
							continue
						}
						sz := func(b *types.Basic) int64 { return p.Pkgs[0].TypesSizes.Sizeof(b) }
						narrow := sz(to) < sz(from) || sz(to) == sz(from) && (from.Info()&types.IsUnsigned != to.Info()&types.IsUnsigned)
						c.Check(!narrow, fmt.Sprintf("no-narrowing:%s.%s:%s->%s", name, baseName(g.Name()), from.Name(), to.Name()), cv, g,
							"a number travels in a wire field at least as wide as the statement's own field (a planner-computed value that does not fit wraps silently on the way to the leaf)",
							fmt.Sprintf("%s converted to %s", from.Name(), to.Name()))
					}
				}
			}
		}
		c.Check(nPairs >= 2, "pairs-found", nil, nil, "the statements' custom wire forms were examined", fmt.Sprintf("%d pairs", nPairs))
	})

	// ---- the pooled lexer / parser belong to one Parse call until it is done with them ------------------------------------------------
	c.Rule("TYPESTATE", "sql.Parse{pooled lexer and parser released after the parse}", func() {
		f := c.Fn("sql.Parse")
		uses := p.Sites(f, func(p *eng.Prog, in ssa.Instruction) bool {
			cl, ok := in.(*ssa.Call)
			if !ok {
				return false
			}
			for _, k := range p.CalleeKeys(cl) {
				if strings.HasSuffix(k, ".Statement") || strings.HasSuffix(k, "ParseTreeWalker.Walk") || strings.HasSuffix(k, "NewCommonTokenStream") || k == "var:sql.getSQLParserFunc" || k == "sql.getSQLParser" {
					return true
				}
			}
			return false
		})
		c.Check(len(uses) >= 3, "parse-steps-found", nil, f, "Parse builds the token stream, creates the parser, runs parser.Statement() and walks the tree", fmt.Sprintf("%d steps found", len(uses)))
		nPut := len(p.Sites(f, eng.DeferTo("sql.putSQLLexer", "sql.putSQLParser")))
		for i, put := range p.Sites(f, eng.CallTo("sql.putSQLLexer", "sql.putSQLParser")) {
			nPut++
			w, again := eng.Reaches(f, put.Instr, uses, nil)
			det := ""
			if again {
				det = "the object goes back to the pool at " + p.InstrPos(put.Instr) + " but " + p.InstrPos(w) + " still runs afterwards (the token stream pulls tokens from the lexer lazily while the parser runs)"
			}
			c.Check(!again, fmt.Sprintf("released-after-last-use[%d]", i), put.Instr, f,
				"a lexer / parser taken from the pool is put back only after the parse that uses it has finished (another goroutine's Parse would otherwise re-target it mid-parse and this statement would be built from the other one's text)", det)
		}
		c.Check(nPut >= 1, "pool-returns-found", nil, f, "Parse returns its pooled objects", "")
	})

	// ---- determinism of the parser ---------------------------------------------------------------------------------------------
	c.Rule("PROV", "sql.Parse{every call hands out a statement built by this call}", func() {
		f := c.Fn("sql.Parse")
		var fromListenerD func(v ssa.Value, depth int) bool
		fromListenerD = func(v ssa.Value, depth int) bool {
			switch x := v.(type) {
			case *ssa.ChangeInterface:
				return fromListenerD(x.X, depth)
			case *ssa.ChangeType:
				return fromListenerD(x.X, depth)
			case *ssa.UnOp:
				// a local the value was parked in
				if a, ok := x.X.(*ssa.Alloc); ok && a.Referrers() != nil {
					n := 0
					for _, r := range *a.Referrers() {
						if st, ok := r.(*ssa.Store); ok && st.Addr == ssa.Value(a) {
							if u, ok := st.Val.(*ssa.UnOp); ok && u.X == ssa.Value(a) {
								continue // x = x
							}
							n++
							if depth > 3 || !fromListenerD(st.Val, depth+1) {
								return false
							}
						}
					}
					return n > 0
				}
				return false
			case *ssa.Const:
				return x.IsNil()
			case *ssa.Extract:
				return fromListenerD(x.Tuple, depth)
			case *ssa.MakeInterface:
				return fromListenerD(x.X, depth)
			case *ssa.Phi:
				for _, e := range x.Edges {
					if !fromListenerD(e, depth) {
						return false
					}
				}
				return true
			case *ssa.Call:
				g := x.Common().StaticCallee()
				if g == nil {
					return false
				}
				if p.FuncKey(g) == "sql.listener.statement" {
					return true
				}
				// a helper of package sql that hands on what the listener built
				if depth < 3 && strings.HasPrefix(p.FuncKey(g), "sql.") && g.Blocks != nil {
					n := 0
					for _, b := range g.Blocks {
						if r, ok := b.Instrs[len(b.Instrs)-1].(*ssa.Return); ok && len(r.Results) > 0 {
							n++
							if !fromListenerD(r.Results[0], depth+1) {
								return false
							}
						}
					}
					return n > 0
				}
				return false
			}
			return false
		}
		fromListener := func(v ssa.Value) bool { return fromListenerD(v, 0) }
		n := 0
		// the result variable: the cell whose content Parse's returns hand out (a named result, whatever it is called)
		var resCell *ssa.Alloc
		for _, b := range f.Blocks {
			if r, ok := b.Instrs[len(b.Instrs)-1].(*ssa.Return); ok && len(r.Results) > 0 {
				if u, ok := r.Results[0].(*ssa.UnOp); ok {
					if a, ok := u.X.(*ssa.Alloc); ok {
						resCell = a
					}
				}
			}
		}
		fns := append([]*ssa.Function{f}, eng.Closures(f)...)
		for _, fn := range fns {
			for _, b := range fn.Blocks {
				for _, in := range b.Instrs {
					switch x := in.(type) {
					case *ssa.Store:
						named := false
						switch a := x.Addr.(type) {
						case *ssa.Alloc:
							named = resCell != nil && a == resCell
						case *ssa.FreeVar:
							named = resCell != nil && eng.FreeVarBinding(a) == ssa.Value(resCell)
						}
						if !named {
							continue
						}
						if u, ok := x.Val.(*ssa.UnOp); ok && u.X == x.Addr {
							continue // the result copied onto itself before the deferred calls run
						}
						n++
						c.Check(fromListener(x.Val), fmt.Sprintf("result-store[%d]", n), in, fn,
							"the statement Parse returns is the one its own listener built from this text (or nil): the planner rewrites statements in place, so an object handed out twice no longer denotes the text the second time",
							"assigns "+p.Desc(x.Val))
					case *ssa.Return:
						if fn != f || len(x.Results) == 0 {
							continue
						}
						if u, ok := x.Results[0].(*ssa.UnOp); ok {
							if a, ok := u.X.(*ssa.Alloc); ok && a == resCell {
								continue
							}
						}
						n++
						c.Check(fromListener(x.Results[0]), fmt.Sprintf("result-return[%d]", n), in, fn, "the statement Parse returns is the one its own listener built from this text (or nil)", "returns "+p.Desc(x.Results[0]))
					}
				}
			}
		}
		c.Check(n >= 1, "result-sites-found", nil, f, "Parse assigns its result", fmt.Sprintf("%d", n))
		// no package-level statement store
		for _, m := range p.SSA.AllPackages() {
			if m.Pkg.Path() != "github.com/lindb/lindb/sql" {
				continue
			}
			for name, mem := range m.Members {
				g, ok := mem.(*ssa.Global)
				if !ok {
					continue
				}
				ts := g.Type().String()
				c.Check(!strings.Contains(ts, "stmt.Statement") && !strings.Contains(ts, "stmt.Query"), "no-global-statement-store:"+name, nil, nil,
					"package sql keeps no package-level container of parsed statements", "global "+name+" has type "+ts)
			}
		}
	})

	c.Rule("PROV", "sql{deterministic parsing}", func() {
		sp := p.Package("sql")
		if sp == nil {
			c.Undecided("package sql not loaded")
		}
		nRange, nFiles := 0, 0
		for _, f := range sp.Syntax {
			name := p.Fset.Position(f.Pos()).Filename
			nFiles++
			ast.Inspect(f, func(x ast.Node) bool {
				if r, ok := x.(*ast.RangeStmt); ok {
					if _, isMap := sp.TypesInfo.TypeOf(r.X).Underlying().(*types.Map); isMap {
						nRange++
						c.Check(false, "map-range:"+p.Pos(r.Pos()), nil, nil, "the parser does not build statements by ranging over a map (iteration order is random)", "range over map in "+name)
					}
				}
				return true
			})
		}
		c.Check(nRange == 0 && nFiles > 3, "no-map-ordered-construction", nil, nil, "no range-over-map in package sql (non-generated parser code)", fmt.Sprintf("%d files scanned", nFiles))
		// time/random sources
		bad := 0
		for _, fn := range p.FuncsWithPrefix("sql.") {
			for _, s := range p.SitesDirect(fn, func(p *eng.Prog, in ssa.Instruction) bool {
				cl, ok := in.(ssa.CallInstruction)
				if !ok {
					return false
				}
				f := cl.Common().StaticCallee()
				if f == nil || f.Pkg == nil {
					return false
				}
				pp := f.Pkg.Pkg.Path()
				return pp == "time" && f.Name() == "Now" || pp == "math/rand" || strings.HasSuffix(pp, "fasttime") || strings.HasSuffix(pp, "timeutil") && f.Name() == "Now"
			}) {
				allowed := strings.Contains(p.FuncKey(fn), "now") || strings.Contains(p.FuncKey(fn), "Now") || strings.Contains(p.FuncKey(fn), "parseTime") || strings.Contains(strings.ToLower(p.FuncKey(fn)), "time")
				if p.FuncKey(fn) == "sql.queryStmtParser.build" {
					// the default time range of a statement that gives none is relative to parse time by definition:
					// the clock value may only reach TimeRange.Start / TimeRange.End
					allowed = true
					clock := s.Instr.(ssa.Value)
					for _, b := range eng.BlocksT(fn) {
						for _, in := range b.Instrs {
							if st, ok := in.(*ssa.Store); ok && eng.DependsOn(st.Val, func(x ssa.Value) bool { return x == clock }) {
								fa, isF := st.Addr.(*ssa.FieldAddr)
								if !isF || !strings.HasPrefix(eng.FieldKeyOfAddr(fa), "pkg/timeutil.TimeRange.") {
									if _, isLocal := st.Addr.(*ssa.Alloc); !isLocal {
										allowed = false
									}
								}
							}
						}
					}
				}
				if !allowed {
					bad++
				}
				c.Check(allowed, "clock:"+p.FuncKey(fn), s.Instr, fn, "a wall-clock source appears only in the time-expression helpers (relative time like now()-1h is the documented exception)", "clock/random source in "+p.FuncKey(fn))
			}
		}
		c.Check(bad == 0, "no-hidden-nondeterminism", nil, nil, "no random or clock source outside the time helpers", "")
		// helpers called by the parser must not hand back a list whose order comes from map iteration
		nCalls := 0
		for _, fn := range p.FuncsWithPrefix("sql.") {
			for _, d := range p.DeepSites(fn, func(p *eng.Prog, in ssa.Instruction) bool {
				cl, ok := in.(ssa.CallInstruction)
				if !ok {
					return false
				}
				g := cl.Common().StaticCallee()
				return g != nil && g.Blocks != nil && mapOrderedResult(g)
			}, 1, false) {
				leaf := d.Leaf().(ssa.CallInstruction)
				g := leaf.Common().StaticCallee()
				nCalls++
				c.Check(false, fmt.Sprintf("map-ordered-helper:%s->%s", p.FuncKey(fn), p.FuncKey(g)), d.Top(), fn,
					"the parser does not take a list from a helper that builds it by ranging over a map (the same text would parse to differently ordered statements)",
					p.FuncKey(g)+" returns a slice filled inside a range over a map")
			}
		}
		c.Check(nCalls == 0, "no-map-ordered-helper", nil, nil, "no parser function calls a map-order-dependent list builder", fmt.Sprintf("%d such calls", nCalls))
		// positive control: the detector recognises the module's known map-ordered builder
		if dd := p.Func("pkg/strutil.DeDupStringSlice"); dd != nil {
			c.Check(mapOrderedResult(dd), "detector-control", nil, dd, "control: pkg/strutil.DeDupStringSlice is recognised as a map-ordered list builder", "the detector no longer recognises the known positive example")
		}
	})
	_ = token.NoPos
}

// isLoopCondOn: the condition is the continuation test of a range loop over the given field.
func isLoopCondOn(cond ssa.Value, fieldKey string) bool {
	return isAnyLoopCond(cond) && eng.DependsOnField(cond, fieldKey)
}

// isAnyLoopCond: `i < len(x)` style range-index condition (the loops that decode list items).
func isAnyLoopCond(cond ssa.Value) bool {
	bo, ok := cond.(*ssa.BinOp)
	if !ok || bo.Op != token.LSS {
		return false
	}
	// the induction variable: a phi that one of its own edges is computed from (i, or i+1 in the rotated range form)
	x, _ := eng.SplitConstAdd(bo.X)
	ph, ok := x.(*ssa.Phi)
	if !ok {
		return false
	}
	if ph.Comment == "rangeindex" {
		return true
	}
	for _, e := range ph.Edges {
		if e != ssa.Value(ph) && eng.DependsOn(e, func(y ssa.Value) bool { return y == ssa.Value(ph) }) {
			return true
		}
	}
	return false
}

// mapOrderedResult: fn returns a slice and fills some slice by append inside a range over a map with an element taken from that
// iteration (the order of the result is the map's random iteration order), without sorting it afterwards.
func mapOrderedResult(fn *ssa.Function) bool {
	res := fn.Signature.Results()
	slice := false
	for i := 0; i < res.Len(); i++ {
		if _, ok := res.At(i).Type().Underlying().(*types.Slice); ok {
			slice = true
		}
	}
	if !slice {
		return false
	}
	var ranges []*ssa.Range
	sorted := false
	for _, b := range fn.Blocks {
		for _, in := range b.Instrs {
			if r, ok := in.(*ssa.Range); ok {
				if _, isMap := r.X.Type().Underlying().(*types.Map); isMap {
					ranges = append(ranges, r)
				}
			}
			if cl, ok := in.(ssa.CallInstruction); ok {
				if g := cl.Common().StaticCallee(); g != nil && g.Pkg != nil && (g.Pkg.Pkg.Path() == "sort" || g.Pkg.Pkg.Path() == "slices") {
					sorted = true
				}
			}
		}
	}
	if len(ranges) == 0 || sorted {
		return false
	}
	fromIter := func(v ssa.Value) bool {
		return eng.DependsOn(v, func(x ssa.Value) bool {
			n, ok := x.(*ssa.Next)
			if !ok {
				return false
			}
			for _, r := range ranges {
				if n.Iter == ssa.Value(r) {
					return true
				}
			}
			return false
		})
	}
	for _, b := range fn.Blocks {
		for _, in := range b.Instrs {
			if st, ok := in.(*ssa.Store); ok {
				if ia, isI := st.Addr.(*ssa.IndexAddr); isI && fromIter(st.Val) {
					if _, isS := ia.X.Type().Underlying().(*types.Slice); isS {
						return true // dst[idx] = k inside `for k := range m`
					}
				}
			}
			cl, ok := in.(*ssa.Call)
			if !ok {
				continue
			}
			bi, isB := cl.Common().Value.(*ssa.Builtin)
			if !isB || bi.Name() != "append" || len(cl.Common().Args) < 2 {
				continue
			}
			if eng.DependsOn(cl.Common().Args[1], func(x ssa.Value) bool {
				n, ok := x.(*ssa.Next)
				if !ok {
					return false
				}
				for _, r := range ranges {
					if n.Iter == ssa.Value(r) {
						return true
					}
				}
				return false
			}) {
				return true
			}
		}
	}
	return false
}

// isZeroValueTest: cond compares a value (or len/cap of it) with the constant 0, "" or nil, and involves no method or function call.
func isZeroValueTest(cond ssa.Value) bool {
	if u, ok := cond.(*ssa.UnOp); ok && u.Op == token.NOT {
		cond = u.X
	}
	bo, ok := cond.(*ssa.BinOp)
	if !ok {
		return false
	}
	isZero := func(v ssa.Value) bool {
		k, ok := v.(*ssa.Const)
		if !ok {
			return false
		}
		if k.IsNil() {
			return true
		}
		if k.Value == nil {
			return true
		}
		switch k.Value.Kind() {
		case constant.Int, constant.Float:
			return constant.Sign(k.Value) == 0
		case constant.String:
			return constant.StringVal(k.Value) == ""
		case constant.Bool:
			return true
		}
		return false
	}
	var other ssa.Value
	switch {
	case isZero(bo.Y):
		other = bo.X
	case isZero(bo.X):
		other = bo.Y
	default:
		return false
	}
	call := eng.DependsOn(other, func(x ssa.Value) bool {
		cl, ok := x.(*ssa.Call)
		if !ok {
			return false
		}
		if b, ok := cl.Common().Value.(*ssa.Builtin); ok && (b.Name() == "len" || b.Name() == "cap") {
			return false
		}
		return true
	})
	return !call
}
