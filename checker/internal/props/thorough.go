package props

import "lincheck/internal/eng"

var thoroughExtra = map[string]func(c *eng.Ctx){}

// Thorough returns the additional (thorough-tier only) rule instances of a property, if any.
func Thorough(id string) func(c *eng.Ctx) { return thoroughExtra[id] }
