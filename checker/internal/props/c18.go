package props

import (
	"fmt"
	"go/token"
	"go/types"
	"sort"
	"strings"

	"golang.org/x/tools/go/ssa"

	"lincheck/internal/eng"
)

const smgrT = "coordinator/master.stateManager"

func init() {
	register(eng.Property{
		ID:    "C18",
		Title: "Shard placement and shard leadership stay valid under any node churn",
		Explanation: "Decides the structural conditions of the leadership invariant: the shard state and leader are stored only by the three event handlers; a shard is marked online only together " +
			"with a leader that is either the result of a successful election or the node that just came online and holds a replica of it; it is marked offline only together with NoLeader; every " +
			"modified local copy of a shard state is written back to the state map before the next shard is handled; the live-node set is updated before leadership is recomputed and the state is synced " +
			"afterwards; the elector returns a replica of that shard that is in the live set, or an error; failure handling covers every shard led by the failed node, start-up every shard with a replica " +
			"on the node; assignment runs only after its preconditions were checked and growing assigns only the missing shards from the given start id; the follower shift is provably within " +
			"[1, nodes-1] (range analysis), so a follower is never the leader's node; events are processed by one goroutine.",
		NotDecided: "round-robin balance and pairwise distinctness of followers (modular arithmetic beyond the shift range), the inductive invariant over event sequences as such.",
		MinObls:    30,
		Run:        runC18,
	})
}

func runC18(c *eng.Ctx) {
	p := c.P
	newMasterStartsFromAnEmptyState(c)
	addReplicaAppends(c)
	watchResyncReachesTheListeners(c)
	reportedStateIsTheLiveState(c)
	everyEventIsQueued(c)
	online := constOf0(c, "models", "OnlineShard")
	offline := constOf0(c, "models", "OfflineShard")
	noLeader := constOf0(c, "models", "NoLeader")
	stateF, leaderF := "models.ShardState.State", "models.ShardState.Leader"

	c.Rule("OWNER", "models.ShardState{State,Leader}", func() {
		owner(c, "store to ShardState.State/Leader", eng.StoreField(stateF, leaderF),
			[]string{smgrT + ".onNodeStartup", smgrT + ".onNodeFailure", smgrT + ".initializeShardState"}, 10)
	})

	// ---- 1. online <=> leader alive; offline <=> no leader; write-back ------------------------------------------------
	for _, fnName := range []string{"onNodeStartup", "onNodeFailure", "initializeShardState"} {
		fnName := fnName
		c.Rule("GUARD", smgrT+"."+fnName+"{state+leader}", func() {
			f := c.Fn(smgrT + "." + fnName)
			facts := p.MustFacts(f)
			states := c.Some(f, eng.StoreField(stateF), "store to shardState.State")
			leaders := c.Some(f, eng.StoreField(leaderF), "store to shardState.Leader")
			elect := p.Sites(f, invokeOn(".elector", "ElectLeader"))
			for i, s := range states {
				st := s.Instr.(*ssa.Store)
				v, ok := eng.ConstInt(st.Val)
				if !ok {
					c.Check(false, fmt.Sprintf("state-const[%d]", i), s.Instr, f, "the shard state stored is a constant", "stores "+p.Desc(st.Val))
					continue
				}
				// the leader store that accompanies it: same block
				var ls *ssa.Store
				for _, l := range leaders {
					if l.Instr.Block() == s.Instr.Block() && eng.SameValue(l.Instr.(*ssa.Store).Addr.(*ssa.FieldAddr).X, st.Addr.(*ssa.FieldAddr).X) {
						ls = l.Instr.(*ssa.Store)
					}
				}
				if ls == nil {
					c.Check(false, fmt.Sprintf("state-with-leader[%d]", i), s.Instr, f, "state and leader are stored together", "no Leader store next to the State store")
					continue
				}
				switch v {
				case offline:
					lv, okc := eng.ConstInt(ls.Val)
					c.Check(okc && lv == noLeader, fmt.Sprintf("offline=>no-leader[%d]", i), ls, f, "an offline shard has no leader", "leader stored: "+p.Desc(ls.Val))
					if len(elect) == 1 {
						// offline only when the election failed
						_, errEdges := eng.ErrCheckEdges(f, elect[0].Instr.(ssa.Value))
						_, other := eng.PathExists(eng.PathQuery{Fn: f, After: elect[0].Instr, Target: func(in ssa.Instruction) bool { return in == s.Instr }, Edge: eng.ForbidEdges(errEdges)})
						c.Check(len(errEdges) > 0 && !other, fmt.Sprintf("offline-only-if-no-live-replica[%d]", i), s.Instr, f, "a shard is marked offline only when no live replica could be elected", "")
					}
				case online:
					okL := false
					why := "leader stored: " + p.Desc(ls.Val)
					if len(elect) == 1 && eng.DerivesFromCall(ls.Val, elect[0].Instr.(ssa.Value), 0) {
						okd, w := eng.OkDominates(f, elect[0].Instr, s.Instr)
						okL = okd
						why = w
					} else if strings.HasSuffix(p.DescUp(eng.Unwrap(ls.Val)), "node.ID") {
						// start-up: the node that came online; the shard must be one of its replicas
						rep := p.Sites(f, invokeOn("state", "ReplicasOnNode"))
						okL = len(rep) == 1 && strings.HasSuffix(p.Desc(eng.CallArgs(rep[0].Instr.(*ssa.Call))[0]), "node.ID") && eng.DominatedBy(f, s.Instr, rep, nil)
						why = "the shard set is not derived from ReplicasOnNode(node.ID)"
						// only when the shard was not online already (an alive leader is kept)
						ne := facts.Find(facts.At(s.Instr), "ne", eng.DescSuffix(".State"), func(d string, _ ssa.Value) bool { return d == fmt.Sprint(online) })
						c.Check(len(ne) > 0, fmt.Sprintf("keep-alive-leader[%d]", i), s.Instr, f, "a shard that is already online keeps its (alive) leader when another replica starts", "")
					}
					c.Check(okL, fmt.Sprintf("online=>alive-leader[%d]", i), ls, f,
						"a shard is marked online only with a leader that is the result of a successful election among live replicas, or the replica node that just came online", why)
				default:
					c.Check(false, fmt.Sprintf("state-known[%d]", i), s.Instr, f, "the stored state is Online or Offline", fmt.Sprint(v))
				}
				// write-back of the modified copy
				base := st.Addr.(*ssa.FieldAddr).X
				wb := p.Sites(f, func(p *eng.Prog, in ssa.Instruction) bool {
					mu, ok := in.(*ssa.MapUpdate)
					if !ok {
						return false
					}
					// the stored value is the modified copy (directly, or handed back by the helper that built it)
					return eng.DependsOn(mu.Value, func(x ssa.Value) bool {
						u, ok := x.(*ssa.UnOp)
						return ok && u.X == base
					})
				})
				_, lost := eng.PathExists(eng.PathQuery{Fn: f, After: s.Instr, Target: func(in ssa.Instruction) bool {
					switch in.(type) {
					case *ssa.Return, *ssa.Next:
						return true
					}
					if ph, ok := in.(*ssa.Phi); ok && ph.Comment == "rangeindex" {
						return true
					}
					return false
				}, Blocked: func(in ssa.Instruction) bool { return instrIn(in, wb) }})
				c.Check(len(wb) > 0 && !lost, fmt.Sprintf("written-back[%d]", i), s.Instr, f,
					"the modified shard state (a local copy of a map value) is stored back into the state map before the next shard / return", "a path leaves the iteration without shardStates[shardID] = shardState")
			}
		})
	}

	// ---- 2. liveness first, then leadership, then sync ------------------------------------------------------------------
	c.Rule("ORDER", smgrT+"{liveness<leadership<sync}", func() {
		f := c.Fn(smgrT + ".onStorageNodeFailure")
		orderInFn(c, f, invokeOn("", "NodeOffline"), eng.CallTo(smgrT+".onNodeFailure"), "state.NodeOffline", "onNodeFailure")
		orderInFn(c, f, eng.CallTo(smgrT+".onNodeFailure"), eng.CallTo(smgrT+".syncState"), "onNodeFailure", "syncState")
		g := c.Fn(smgrT + ".onStorageNodeStartup")
		// state.NodeOnline(node), or its body (LiveNodes[node.ID] = node) written in place
		online := eng.Any(invokeOn("", "NodeOnline"), eng.MapUpdateOf("models.StorageState.LiveNodes"))
		orderInFn(c, g, online, eng.CallTo(smgrT+".onNodeStartup"), "state.NodeOnline", "onNodeStartup")
		orderInFn(c, g, eng.CallTo(smgrT+".onNodeStartup"), eng.CallTo(smgrT+".syncState"), "onNodeStartup", "syncState")
		// same node id
		off := c.One(f, invokeOn("", "NodeOffline"), "NodeOffline").Instr.(*ssa.Call)
		fl := c.One(f, eng.CallTo(smgrT+".onNodeFailure"), "onNodeFailure").Instr.(*ssa.Call)
		c.Check(eng.CallArgs(off)[0] == eng.CallArgs(fl)[1] && eng.CallRecv(off) == eng.CallArgs(fl)[0], "same-node-same-state", fl, f, "the node removed from the live set is the one whose shards are re-elected, on the same state object", "")
		owner(c, "call of stateManager.onNodeFailure/onNodeStartup", eng.AnyCallTo(smgrT+".onNodeFailure", smgrT+".onNodeStartup"),
			[]string{smgrT + ".onStorageNodeFailure", smgrT + ".onStorageNodeStartup"}, 2)
		owner(c, "call of stateManager.processEvent", eng.AnyCallTo(smgrT+".processEvent"), []string{smgrT + ".consumeEvent"}, 1)
		owner(c, "go consumeEvent", eng.AnyCallTo(smgrT+".consumeEvent"), []string{"coordinator/master.NewStateManager"}, 1)
	})

	// ---- 2b. every event the master's watchers emit is handled by the state manager ---------------------------------------------
	// (F46: the deletion of a shard assignment was emitted and silently counted as handled; a late ShardAssignmentChanged that
	// is delivered after the database's config deletion then leaves a dropped database in the state for ever)
	c.Rule("EXHAUSTIVE", smgrT+".processEvent{event types emitted by the master's state machines}", func() {
		evT := "coordinator/discovery.Event.Type"
		names := map[string]string{} // constant value -> name
		for _, pk := range p.Pkgs {
			if eng.ShortPkg(pk.PkgPath) != "coordinator/discovery" {
				continue
			}
			sc := pk.Types.Scope()
			for _, n := range sc.Names() {
				if k, ok := sc.Lookup(n).(*types.Const); ok && strings.HasSuffix(k.Type().String(), "discovery.EventType") {
					names[k.Val().ExactString()] = n
				}
			}
		}
		if len(names) < 6 {
			c.Undecided("unresolved anchor: expected >= 6 discovery.EventType constants, found %d", len(names))
		}
		emitted := map[string]ssa.Instruction{}
		for _, fn := range p.FuncsWithPrefix("coordinator/master.StateMachineFactory.") {
			for _, s := range p.SitesDirect(fn, eng.StoreField(evT)) {
				v, _ := storedValue(s.Instr)
				k, ok := v.(*ssa.Const)
				if !ok || k.Value == nil {
					c.Check(false, "emitted-type-is-a-constant:"+p.InstrPos(s.Instr), s.Instr, fn, "a state machine emits events of a constant type", "type "+p.Desc(v))
					continue
				}
				emitted[k.Value.ExactString()] = s.Instr
			}
		}
		if len(emitted) < 6 {
			c.Undecided("unresolved anchor: expected >= 6 event types emitted by the master's state machines, found %d", len(emitted))
		}
		pe := c.Fn(smgrT + ".processEvent")
		handled := map[string]bool{}
		handler := map[string]*ssa.Function{}
		for _, b := range eng.BlocksT(pe) {
			for _, in := range b.Instrs {
				bo, ok := in.(*ssa.BinOp)
				if !ok || bo.Op != token.EQL {
					continue
				}
				for _, pair := range [][2]ssa.Value{{bo.X, bo.Y}, {bo.Y, bo.X}} {
					k, isC := pair[1].(*ssa.Const)
					if !isC || k.Value == nil || !eng.DependsOnField(pair[0], evT) {
						continue
					}
					// the case does something: its true edge leads to a call of a handler
					te, _ := eng.BoolCheckEdges(pe, bo)
					for _, e := range te {
						blk := e.B.Succs[e.Succ]
						for _, x := range blk.Instrs {
							if cl, isCall := x.(*ssa.Call); isCall && cl.Common().StaticCallee() != nil && strings.HasPrefix(p.FuncKey(cl.Common().StaticCallee()), smgrT+".on") {
								handled[k.Value.ExactString()] = true
								handler[k.Value.ExactString()] = cl.Common().StaticCallee()
							}
						}
					}
				}
			}
		}
		var vals []string
		for v := range emitted {
			vals = append(vals, v)
		}
		sort.Strings(vals)
		for _, v := range vals {
			n := names[v]
			if n == "" {
				n = "EventType(" + v + ")"
			}
			c.Check(handled[v], "handled:"+n, emitted[v], pe, "an event type the master's watchers emit ("+n+") has a case in processEvent that calls a handler", "no case: the event is dropped and counted as handled")
			// the two deletions of a database's keys (config, shard assignment) can take the database out of the published state
			if h := handler[v]; h != nil && (n == "DatabaseConfigDeletion" || n == "ShardAssignmentDeletion") {
				drops := p.Sites(h, invokeOn("", "DropDatabase"))
				c.Check(len(drops) > 0, "deletion-drops-state:"+n, nil, h, "the handler of "+n+" removes the database from the storage state", "no state.DropDatabase(name)")
				for i, d := range drops {
					_, skip := eng.PathExists(eng.PathQuery{Fn: h, After: d.Instr,
						Target:  func(in ssa.Instruction) bool { _, isRet := in.(*ssa.Return); return isRet },
						Blocked: func(in ssa.Instruction) bool { return eng.CallTo(smgrT+".syncState")(p, in) }})
					c.Check(!skip, fmt.Sprintf("deletion-publishes-state:%s[%d]", n, i), d.Instr, h, "after the database left the storage state the state is published (syncState) on every path", "a return is reachable without syncState")
				}
			}
		}
	})

	// ---- 3. the elector ---------------------------------------------------------------------------------------------------
	c.Rule("PROV", "coordinator/master.replicaLeaderElector.ElectLeader", func() {
		f := c.Fn("coordinator/master.replicaLeaderElector.ElectLeader")
		facts := p.MustFacts(f)
		// the append that builds the candidate list
		apps := p.Sites(f, eng.CallTo("builtin:append")) // candidate-list shape; the direct shape returns the first live replica from the loop
		var look *ssa.Lookup
		for _, b := range eng.BlocksT(f) {
			for _, in := range b.Instrs {
				if l, ok := in.(*ssa.Lookup); ok && l.CommaOk && p.Desc(l.X) == "liveNodes" {
					look = l
				}
			}
		}
		if look == nil {
			c.Undecided("no membership test in liveNodes found")
		}
		for i, a := range apps {
			fs := facts.At(a.Instr)
			live := facts.Find(fs, "true", func(_ string, v ssa.Value) bool { return extractIs(v, look, 1) }, nil)
			c.Check(len(live) > 0, fmt.Sprintf("candidate-is-live[%d]", i), a.Instr, f, "a replica becomes a candidate only when it is in the live-node set", "facts: "+strings.Join(facts.Render(fs), " ; "))
			// the appended element is the replica that was looked up, taken from this shard's replica list
			args := a.Instr.(*ssa.Call).Common().Args
			elem := args[1]
			c.Check(eng.DependsOn(elem, func(x ssa.Value) bool { return x == look.Index }) || eng.DependsOn(look.Index, func(x ssa.Value) bool { return eng.DependsOn(elem, func(y ssa.Value) bool { return y == x }) }),
				fmt.Sprintf("candidate-is-tested-replica[%d]", i), a.Instr, f, "the candidate appended is the replica whose liveness was tested", "")
			c.Check(eng.DependsOnField(look.Index, "models.Replica.Replicas") && eng.DependsOn(look.Index, func(x ssa.Value) bool { return p.Desc(x) == "shardID" }),
				fmt.Sprintf("replica-of-this-shard[%d]", i), a.Instr, f, "candidates are taken from the replica list of the requested shard", "index "+p.Desc(look.Index))
		}
		for i, r := range eng.SuccessReturns(f) {
			ev := eng.RetVal(r, 1)
			if eng.IsNilConst(ev) || !strings.Contains(p.Desc(ev), "Err") {
				lv := eng.RetVal(r, 0)
				fromList := eng.DependsOn(lv, func(x ssa.Value) bool {
					for _, a := range apps {
						if x == a.Instr.(ssa.Value) {
							return true
						}
					}
					return false
				})
				nonEmpty := facts.Find(facts.At(r), "ne", func(d string, _ ssa.Value) bool { return strings.Contains(d, "len(") }, eng.DescIs("0"))
				// direct shape: the returned replica is the one whose liveness test just succeeded
				liveHere := facts.Find(facts.At(r), "true", func(_ string, v ssa.Value) bool { return extractIs(v, look, 1) }, nil)
				direct := len(liveHere) > 0 && (eng.SameValue(lv, look.Index) || p.Desc(lv) == p.Desc(look.Index)) &&
					eng.DependsOnField(look.Index, "models.Replica.Replicas") && eng.DependsOn(look.Index, func(x ssa.Value) bool { return p.Desc(x) == "shardID" })
				c.Check(fromList && len(nonEmpty) > 0 || direct, fmt.Sprintf("leader-from-live-candidates[%d]", i), r, f,
					"a successful election returns a live replica of the requested shard (an element of the non-empty live candidate list, or the replica whose liveness test just succeeded)", "returns "+p.Desc(lv)+"; facts: "+strings.Join(facts.Render(facts.At(r)), " ; "))
			}
		}
	})

	// ---- 3b. an election only reads the assignment ------------------------------------------------------------------------------------
	c.Rule("PROV", "coordinator/master.replicaLeaderElector.ElectLeader{assignment is read-only}", func() {
		f := c.Fn("coordinator/master.replicaLeaderElector.ElectLeader")
		n := 0
		for _, b := range eng.BlocksT(f) {
			for _, in := range b.Instrs {
				var dst ssa.Value
				what := ""
				switch x := in.(type) {
				case *ssa.Call:
					if ks := p.CalleeKeys(x); len(ks) == 1 && ks[0] == "builtin:append" {
						dst, what = x.Common().Args[0], "append to"
					}
				case *ssa.Store:
					switch a := x.Addr.(type) {
					case *ssa.IndexAddr:
						dst, what = a.X, "element store into"
					case *ssa.FieldAddr:
						if _, local := a.X.(*ssa.Alloc); !local {
							dst, what = a.X, "field store through"
						}
					}
				case *ssa.MapUpdate:
					dst, what = x.Map, "map update of"
				}
				if dst == nil {
					continue
				}
				n++
				shared := sharesInputMemory(dst, map[ssa.Value]bool{})
				c.Check(!shared, fmt.Sprintf("no-write-into-the-assignment[%d]", n), in, f,
					"ElectLeader builds its candidate list in memory of its own: it never writes through the shard assignment or the live-node set it was given (they are the cluster state every later election and every node reads)",
					what+" "+p.Desc(dst)+", which shares memory with an argument of the election")
			}
		}
		c.Check(true, "writes-examined", nil, f, "every append / element store / field store through a pointer / map update of ElectLeader was examined", "")
		c.Observe(fmt.Sprintf("ElectLeader: %d writes examined for sharing memory with the arguments", n))
	})

	// ---- 4. coverage of the handlers ------------------------------------------------------------------------------------------
	c.Rule("UNION", smgrT+"{which shards are revisited}", func() {
		f := c.Fn(smgrT + ".onNodeFailure")
		ld := c.One(f, invokeOn("state", "LeadersOnNode"), "state.LeadersOnNode(nodeID)")
		c.Check(p.Desc(eng.CallArgs(ld.Instr.(*ssa.Call))[0]) == "nodeID", "failed-node's-shards", ld.Instr, f, "failure handling revisits the shards led by the failed node", "")
		el := c.One(f, invokeOn(".elector", "ElectLeader"), "ElectLeader")
		a := eng.CallArgs(el.Instr.(*ssa.Call))
		c.Check(strings.HasSuffix(p.Desc(a[1]), ".LiveNodes"), "elect-among-current-live-set", el.Instr, f, "the election uses the state's live-node set (already without the failed node)", "uses "+p.Desc(a[1]))
		lo := c.Fn("models.StorageState.LeadersOnNode")
		facts := p.MustFacts(lo)
		for i, s := range c.Some(lo, eng.CallTo("builtin:append"), "append") {
			eq := facts.Find(facts.At(s.Instr), "eq", eng.DescSuffix(".Leader"), eng.DescIs("nodeID"))
			c.Check(len(eq) > 0, fmt.Sprintf("leader-match[%d]", i), s.Instr, lo, "LeadersOnNode selects exactly the shards whose leader is that node", "")
		}
		rngAll := false
		for _, b := range eng.BlocksT(lo) {
			for _, in := range b.Instrs {
				if r, ok := in.(*ssa.Range); ok && eng.DependsOnField(r.X, "models.StorageState.ShardStates") {
					rngAll = true
				}
			}
		}
		c.Check(rngAll, "all-databases", nil, lo, "LeadersOnNode ranges over every database's shard states", "")
		ro := c.Fn("models.StorageState.ReplicasOnNode")
		member := false
		nodeParam := ssa.Value(ro.Params[1])
		for _, s := range p.Sites(ro, eng.AnyCallTo("models.Replica.Contain")) {
			if a := eng.CallArgs(s.Instr.(*ssa.Call)); len(a) > 0 && a[0] == nodeParam {
				member = true
			}
		}
		for _, b := range eng.BlocksT(ro) {
			for _, in := range b.Instrs {
				if bo, ok := in.(*ssa.BinOp); ok && bo.Op == token.EQL {
					if (bo.X == nodeParam && eng.DependsOnField(bo.Y, "models.Replica.Replicas")) || (bo.Y == nodeParam && eng.DependsOnField(bo.X, "models.Replica.Replicas")) {
						member = true // the membership scan written in place
					}
				}
			}
		}
		c.Check(member, "replica-membership", nil, ro, "ReplicasOnNode selects shards whose replica list contains the node", "no membership test of nodeID in a shard's replica list")
	})

	// ---- 4b. every shard of the handler's list is handled -------------------------------------------------------------------------
	c.Rule("UNION", smgrT+"{every listed shard handled}", func() {
		for _, fnName := range []string{"onNodeStartup", "onNodeFailure", "initializeShardState"} {
			visitsEveryElement(c, c.Fn(smgrT+"."+fnName), "no-shard-skipped:"+fnName,
				"the handler walks all shards it listed (all databases, all shards): no break / return out of the loops")
		}
	})

	// ---- 4b'. a database with an assignment is known to the master and its shards get a state ---------------------------------------
	c.Rule("ORDER", smgrT+".shardAssignment{database registered before its assignment is looked at}", func() {
		f := c.Fn(smgrT + ".shardAssignment")
		reg := c.Some(f, eng.MapUpdateOf(smgrT+".databases"), "m.databases[name] = cfg")
		get := c.One(f, eng.AnyCallTo(smgrT+".GetShardAssign"), "m.GetShardAssign(name)")
		c.Check(eng.DominatedBy(f, get.Instr, reg, nil), "registered-before-lookup", get.Instr, f,
			"every database the master is told about is recorded in m.databases before the create / grow / unchanged decision: a master that took over finds every database on the 'unchanged' path, and only recorded databases are dropped from the cluster state when their config is deleted",
			"a path reaches the assignment lookup without m.databases[name] = cfg")
	})
	c.Rule("PASS", smgrT+".onShardAssignmentChange{every accepted assignment initialises its shard states}", func() {
		f := c.Fn(smgrT + ".onShardAssignmentChange")
		ini := c.Some(f, eng.AnyCallTo(smgrT+".initializeShardState"), "m.initializeShardState(storage, assignment)")
		dec := c.One(f, func(_ *eng.Prog, in ssa.Instruction) bool {
			cl, ok := in.(*ssa.Call)
			return ok && cl.Common().StaticCallee() != nil && strings.HasSuffix(cl.Common().StaticCallee().Name(), "Unmarshal")
		}, "JSONUnmarshal(data, assignment)")
		// on every path on which the event decoded, the handler initialises the shard states before it returns
		_, errEdges := eng.ErrCheckEdges(f, dec.Instr.(ssa.Value))
		w, skipped := eng.PathExists(eng.PathQuery{Fn: f, After: dec.Instr,
			Target:  func(in ssa.Instruction) bool { _, ok := in.(*ssa.Return); return ok },
			Blocked: func(in ssa.Instruction) bool { return instrIn(in, ini) },
			Edge:    eng.ForbidEdges(errEdges)})
		n := 1
		c.Check(len(errEdges) > 0 && !skipped, "initialised-before-return[1]", w, f,
			"whatever the live-node set is at that moment, an accepted assignment gets a state entry for each of its shards (offline / no leader when nobody is alive): node start-up only revives shards that HAVE an entry",
			"a return is reached after a successful decode without initializeShardState")
		c.Check(n >= 1, "accepting-returns-found", nil, f, "the handler has an accepting exit", "")
	})

	// ---- 4b2. placement candidates are the nodes the REPOSITORY lists as alive at that moment ---------------------------------------------
	c.Rule("PROV", "coordinator/master.storageCluster.GetLiveNodes{from the repository}", func() {
		f := c.Fn("coordinator/master.storageCluster.GetLiveNodes")
		list := c.One(f, invokeOn(".repo", "List"), "repo.List(live nodes path)")
		n := 0
		for i, r := range eng.SuccessReturns(f) {
			v := eng.RetVal(r, 0)
			if eng.IsNilConst(v) {
				continue
			}
			n++
			fromRepo := eng.DominatedBy(f, r, []eng.Site{list}, nil)
			fromState := eng.DependsOnField(v, "models.StorageState.LiveNodes") || eng.DependsOnField(v, "coordinator/master.storageCluster.state")
			c.Check(fromRepo && !fromState, fmt.Sprintf("listed-from-the-repository[%d]", i), r, f,
				"the candidates for a new assignment are read from the repository's live-node keys: the in-memory live set is maintained by another watcher's events and may still contain a node whose lease has expired",
				"returns "+p.Desc(v))
		}
		c.Check(n >= 1, "returns-nodes", nil, f, "GetLiveNodes returns a node list", "")
	})
	// ---- 4b3. dropping a database: the in-memory state is cleaned and published whatever the repository says --------------------------------
	c.Rule("ORDER", smgrT+".onDatabaseCfgDelete{state cleaned and synced before the assignment key is removed}", func() {
		f := c.Fn(smgrT + ".onDatabaseCfgDelete")
		okOrderInFn(c, f, eng.CallTo(smgrT+".syncState"), invokeOn(".storage", "DropDatabaseAssignment"), "syncState", "storage.DropDatabaseAssignment")
		drop := c.One(f, invokeOn("", "DropDatabase"), "state.DropDatabase(name)")
		for i, s := range c.Some(f, invokeOn(".storage", "DropDatabaseAssignment"), "storage.DropDatabaseAssignment") {
			c.Check(eng.DominatedBy(f, s.Instr, []eng.Site{drop}, nil), fmt.Sprintf("memory-first[%d]", i), s.Instr, f,
				"the deletion event is delivered once: the database leaves the in-memory state (and that state is published) before the one step that can fail - removing the persisted assignment", "")
		}
	})

	// ---- 4c. "no assignment yet" is decided by the repository's answer, not by any failing read ------------------------------------
	c.Rule("ERRFLOW", smgrT+".GetShardAssign{errors are the callees' errors}", func() {
		errorsOnlyFrom(c, smgrT+".GetShardAssign", eng.Any(invokeOn(".masterRepo", "Get"), eng.AnyCallTo("github.com/lindb/common/pkg/encoding.JSONUnmarshal")), "masterRepo.Get / JSONUnmarshal")
	})

	// ---- 4d. the shard lists handed to the handlers own their memory ----------------------------------------------------------------
	c.Rule("PROV", "models.StorageState{per-database lists do not share a backing array}", func() {
		for _, fk := range []string{"models.StorageState.LeadersOnNode", "models.StorageState.ReplicasOnNode"} {
			f := c.Fn(fk)
			n := 0
			for _, b := range eng.BlocksT(f) {
				for _, in := range b.Instrs {
					mu, ok := in.(*ssa.MapUpdate)
					if !ok || !strings.Contains(mu.Value.Type().String(), "ShardID") {
						continue
					}
					n++
					// the stored slice must not be (an append chain over) a re-slice x[:0] of a slice carried from an earlier iteration
					reused := ""
					eng.WalkExpr(mu.Value, func(x ssa.Value) bool {
						if sl, ok := x.(*ssa.Slice); ok && sl.High != nil {
							if k, isC := eng.ConstInt(sl.High); isC && k == 0 && sl.Max == nil {
								reused = p.Desc(sl)
							}
						}
						return true
					})
					c.Check(reused == "", fmt.Sprintf("%s:stored-list-owns-its-memory[%d]", fk, n), mu, f,
						"a shard list stored under one database is not built in a scratch slice that is re-sliced to length 0 and filled again for the next database: the lists would share one backing array and a later database would overwrite the shard ids of an earlier one",
						"the stored value is built over "+reused)
				}
			}
			c.Check(n > 0, fk+":stores-lists", nil, f, fk+" stores a shard list per database", "")
		}
	})

	// ---- 5. assignment preconditions -------------------------------------------------------------------------------------------
	c.Rule("GUARD", "coordinator/master.ShardAssignment{preconditions}", func() {
		for _, fn := range []string{"coordinator/master.ShardAssignment", "coordinator/master.ModifyShardAssignment"} {
			f := c.Fn(fn)
			facts := p.MustFacts(f)
			as := c.One(f, eng.CallTo("coordinator/master.assignReplicasToStorageNodes"), "assignReplicasToStorageNodes")
			fs := facts.At(as.Instr)
			args := eng.CallArgs(as.Instr.(*ssa.Call))
			nShard, rf := args[1], args[2]
			c.Check(facts.Prove("lt", zeroLike(nShard), nShard, as.Instr), fn+":shards>0", as.Instr, f, "shards are assigned only when the number to assign is positive", strings.Join(facts.Render(fs), " ; "))
			c.Check(facts.Prove("lt", zeroLike(rf), rf, as.Instr), fn+":rf>0", as.Instr, f, "the replica factor is positive", strings.Join(facts.Render(fs), " ; "))
			le := facts.Find(fs, "le", func(_ string, v ssa.Value) bool { return v == rf }, func(d string, _ ssa.Value) bool { return strings.Contains(d, "len(") })
			c.Check(len(le) > 0, fn+":rf<=nodes", as.Instr, f, "the replica factor does not exceed the number of alive nodes (replicas can be distinct)", strings.Join(facts.Render(fs), " ; "))
			if strings.HasSuffix(fn, "ModifyShardAssignment") {
				d := p.Desc(nShard)
				c.Check(strings.Contains(d, "NumOfShard") && strings.Contains(d, "len(") && strings.Contains(d, "-"), fn+":only-missing-shards", as.Instr, f,
					"growing assigns exactly the missing shards (configured minus existing)", "assigns "+d)
				c.Check(p.Desc(args[4]) == "startShardID" && args[5] == ssa.Value(f.Params[2]), fn+":keeps-existing", as.Instr, f,
					"new shards are added to the existing assignment starting at the given shard id (existing shards are untouched)", "")
			}
		}
		// the follower shift is within [1, nodes-1]: a follower is never the first replica's node
		if ri := p.Func("coordinator/master.replicaIndex"); ri != nil && ri.Blocks != nil {
			shiftRange(c, ri)
		} else {
			shiftRangeInline(c, c.Fn("coordinator/master.assignReplicasToStorageNodes"))
		}
	})

	// ---- 5b. first replicas go round the nodes one by one: index = (shard id + start) mod nodes, start fixed for the whole call --------
	// (the per-round bump belongs to the FOLLOWER shift; bumping the start instead keeps every placement valid and a create
	// perfectly round-robin, but a grow that begins mid-round then skips one node and doubles up on others)
	c.Rule("PROV", "coordinator/master.assignReplicasToStorageNodes{first replica = (shard id + fixed start) mod nodes}", func() {
		f := c.Fn("coordinator/master.assignReplicasToStorageNodes")
		adds := c.Some(f, eng.AnyCallTo("models.ShardAssignment.AddReplica"), "shardAssignment.AddReplica(shard, node)")
		// the first AddReplica of an iteration: its node is storageNodeIDs[firstReplicaIndex]
		var first ssa.Value
		for _, a := range adds {
			node := eng.CallArgs(a.Instr.(*ssa.Call))[1]
			var idx ssa.Value
			eng.WalkExpr(node, func(x ssa.Value) bool {
				if ia, ok := x.(*ssa.IndexAddr); ok && idx == nil {
					idx = ia.Index
				}
				return true
			})
			if idx != nil {
				// the index handed to a helper that adds the shard's replicas: the caller's argument
				idx = eng.Unwrap(eng.UpParamVia(f, a, idx))
			}
			if bo, ok := idx.(*ssa.BinOp); ok && bo.Op == token.REM {
				if _, isCall := bo.X.(*ssa.Call); !isCall {
					first = idx
					break
				}
			}
		}
		if first == nil {
			c.Undecided("unresolved anchor: storageNodeIDs[(shard + start) mod n] not found")
		}
		bo := first.(*ssa.BinOp)
		sum, isSum := bo.X.(*ssa.BinOp)
		c.Check(isSum && sum.Op == token.ADD, "index-is-a-sum-mod-n", bo, f, "the first replica's index is (shard id + start) mod number of nodes", "index is "+p.Desc(first))
		if !isSum {
			return
		}
		// one operand follows the shard id (steps by one per shard), the other is the same value for every shard of the call
		loop := innermostLoop(f, bo.Block())
		varying, fixed := 0, 0
		for _, op := range []ssa.Value{sum.X, sum.Y} {
			carried := false
			eng.WalkExpr(op, func(x ssa.Value) bool {
				if ph, ok := x.(*ssa.Phi); ok && loop != nil && ph.Block() == loop {
					carried = true
				}
				return true
			})
			if carried {
				varying++
			} else {
				fixed++
			}
		}
		c.Check(varying == 1 && fixed == 1, "start-is-fixed-for-the-call", bo, f,
			"exactly one summand changes from shard to shard (the shard id); the start position is not modified inside the loop", fmt.Sprintf("%d loop-carried summand(s), %d fixed", varying, fixed))
	})
}

// constOf0 is constOf for untyped/iota constants of a package.
func constOf0(c *eng.Ctx, pkg, name string) int64 { return constOf(c, pkg, name) }

// shiftRange proves, by a small symbolic range analysis over replicaIndex, that the shift added to
// the first replica's index lies in [1, numOfNode-1] for non-negative inputs, and that the result
// is taken modulo numOfNode. Bounds are of the form  k*n + c  with n = numOfNode.
func shiftRange(c *eng.Ctx, f *ssa.Function) {
	var n ssa.Value
	for _, prm := range f.Params {
		if eng.ParamName(prm) == "numOfNode" {
			n = prm
		}
	}
	if n == nil {
		c.Undecided("replicaIndex has no numOfNode parameter")
	}
	rets := eng.SuccessReturns(f)
	if len(rets) != 1 {
		c.Undecided("replicaIndex: expected one return")
	}
	shiftRangeOf(c, f, rets[0], eng.RetVal(rets[0], 0), n,
		func(v ssa.Value) bool { pr, ok := v.(*ssa.Parameter); return ok && eng.ParamName(pr) == "firstReplicaIndex" },
		func(v ssa.Value) bool { _, ok := v.(*ssa.Parameter); return ok })
}

// shiftRangeInline: replicaIndex written in place in assignReplicasToStorageNodes - the follower's index is the index of the
// storage node handed to the AddReplica call of the inner loop, the first replica's index that of the other AddReplica call.
func shiftRangeInline(c *eng.Ctx, f *ssa.Function) {
	adds := c.Some(f, eng.AnyCallTo("models.ShardAssignment.AddReplica"), "shardAssignment.AddReplica(shard, node)")
	idxOf := func(a eng.Site) ssa.Value {
		var idx ssa.Value
		eng.WalkExpr(eng.CallArgs(a.Instr.(*ssa.Call))[1], func(x ssa.Value) bool {
			if ia, ok := x.(*ssa.IndexAddr); ok && idx == nil {
				idx = eng.Unwrap(ia.Index)
			}
			return true
		})
		return idx
	}
	var first, follower ssa.Value
	var at ssa.Instruction
	for _, a := range adds {
		idx := idxOf(a)
		bo, ok := idx.(*ssa.BinOp)
		if !ok || bo.Op != token.REM {
			continue
		}
		if eng.DependsOn(bo.X, func(x ssa.Value) bool {
			b2, ok := x.(*ssa.BinOp)
			return ok && b2.Op == token.REM && x != ssa.Value(bo)
		}) {
			follower, at = idx, a.Instr // (first + 1 + (...) % (n-1)) % n : contains an inner remainder
		} else {
			first = idx
		}
	}
	if first == nil || follower == nil {
		c.Undecided("unresolved anchor: neither replicaIndex(...) nor its body in place (storageNodeIDs[(first + shift) mod n]) found")
	}
	n := follower.(*ssa.BinOp).Y
	shiftRangeOf(c, f, at, follower, n,
		func(v ssa.Value) bool { return eng.Unwrap(v) == first },
		func(v ssa.Value) bool {
			switch x := v.(type) {
			case *ssa.Parameter, *ssa.Phi:
				return true // start index, loop counter, running shift: non-negative by construction (checked by the start-is-fixed / counter rules)
			case *ssa.Call:
				return calleeName(x) == "Intn"
			}
			return false
		})
}

func shiftRangeOf(c *eng.Ctx, f *ssa.Function, at ssa.Instruction, rv ssa.Value, n ssa.Value, isFirst, nonNeg func(ssa.Value) bool) {
	p := c.P
	type bound struct {
		ok       bool
		lo       int64 // constant lower bound
		hiN, hiC int64 // upper bound hiN*n + hiC ; hiN<0 means unbounded
	}
	unb := bound{ok: true, lo: 0, hiN: -1}
	var eval func(v ssa.Value, d int) bound
	eval = func(v ssa.Value, d int) bound {
		if d > 10 {
			return bound{}
		}
		if k, ok := eng.ConstInt(v); ok {
			return bound{true, k, 0, k}
		}
		if v == n {
			return bound{true, 1, 1, 0}
		}
		if nonNeg(v) {
			return unb // non-negative by the callers (start index / loop counter); upper bound unknown
		}
		bo, ok := v.(*ssa.BinOp)
		if !ok {
			return bound{}
		}
		x, y := eval(bo.X, d+1), eval(bo.Y, d+1)
		if !x.ok || !y.ok {
			return bound{}
		}
		switch bo.Op.String() {
		case "+":
			r := bound{ok: true, lo: x.lo + y.lo}
			if x.hiN < 0 || y.hiN < 0 {
				r.hiN = -1
			} else {
				r.hiN, r.hiC = x.hiN+y.hiN, x.hiC+y.hiC
			}
			return r
		case "-":
			if yk, ok := eng.ConstInt(bo.Y); ok {
				r := bound{ok: true, lo: x.lo - yk, hiN: x.hiN, hiC: x.hiC - yk}
				return r
			}
			return bound{}
		case "%":
			// x >= 0, modulus m with upper bound hiN*n+hiC and m > 0  =>  result in [0, m-1]
			if x.lo < 0 || y.hiN < 0 {
				return bound{}
			}
			return bound{ok: true, lo: 0, hiN: y.hiN, hiC: y.hiC - 1}
		}
		return bound{}
	}
	rets := []ssa.Instruction{at}
	top, ok := rv.(*ssa.BinOp)
	if !ok || top.Op.String() != "%" || top.Y != n {
		c.Check(false, "replicaIndex:mod-nodes", rets[0], f, "the follower index is reduced modulo the number of nodes", "returns "+p.Desc(rv))
		return
	}
	c.Check(true, "replicaIndex:mod-nodes", rets[0], f, "the follower index is reduced modulo the number of nodes", "")
	sum, ok := top.X.(*ssa.BinOp)
	if !ok || sum.Op.String() != "+" {
		c.Check(false, "replicaIndex:first+shift", rets[0], f, "the follower index is firstReplicaIndex + shift", "is "+p.Desc(top.X))
		return
	}
	var shift ssa.Value
	if isFirst(sum.X) {
		shift = sum.Y
	} else if isFirst(sum.Y) {
		shift = sum.X
	}
	if shift == nil {
		c.Check(false, "replicaIndex:first+shift", rets[0], f, "the follower index is firstReplicaIndex + shift", "is "+p.Desc(top.X))
		return
	}
	b := eval(shift, 0)
	okR := b.ok && b.lo >= 1 && b.hiN == 1 && b.hiC <= -1
	c.Check(okR, "replicaIndex:shift-in-[1,n-1]", rets[0], f,
		"the shift added to the first replica's index is provably within [1, nodes-1] (so a follower never lands on the first replica's node)",
		fmt.Sprintf("shift = %s has range lo=%d hi=%d*n%+d (ok=%v)", p.Desc(shift), b.lo, b.hiN, b.hiC, b.ok))
}

// sharesInputMemory: may the slice / map / pointer value v refer to memory that was reachable from a parameter of its
// function when the function was entered? Fresh allocations, constants and results of append to a fresh slice do not;
// a re-slice of an argument's slice does (x[:0] keeps the backing array), unless its capacity is cut to zero
// (x[:0:0]). A local struct variable is followed through the values stored into the field read.
func sharesInputMemory(v ssa.Value, seen map[ssa.Value]bool) bool {
	if v == nil || seen[v] {
		return false
	}
	seen[v] = true
	switch x := v.(type) {
	case *ssa.Parameter, *ssa.FreeVar, *ssa.Global:
		return true
	case *ssa.Const, *ssa.MakeSlice, *ssa.MakeMap, *ssa.Alloc:
		return false
	case *ssa.Phi:
		for _, e := range x.Edges {
			if sharesInputMemory(e, seen) {
				return true
			}
		}
		return false
	case *ssa.Slice:
		if x.Max != nil {
			lo := int64(0)
			if x.Low != nil {
				l, ok := eng.ConstInt(x.Low)
				if !ok {
					return sharesInputMemory(x.X, seen)
				}
				lo = l
			}
			if m, ok := eng.ConstInt(x.Max); ok && m == lo {
				return false // capacity 0: the first append allocates
			}
		}
		return sharesInputMemory(x.X, seen)
	case *ssa.Call:
		if b, ok := x.Common().Value.(*ssa.Builtin); ok && b.Name() == "append" {
			return sharesInputMemory(x.Common().Args[0], seen)
		}
		return false
	case *ssa.ChangeType:
		return sharesInputMemory(x.X, seen)
	case *ssa.Convert:
		return sharesInputMemory(x.X, seen)
	case *ssa.Field:
		return sharesInputMemory(x.X, seen)
	case *ssa.Extract:
		return sharesInputMemory(x.Tuple, seen)
	case *ssa.Lookup:
		return sharesInputMemory(x.X, seen)
	case *ssa.Index:
		return sharesInputMemory(x.X, seen)
	case *ssa.IndexAddr:
		return sharesInputMemory(x.X, seen)
	case *ssa.FieldAddr:
		return sharesInputMemory(x.X, seen)
	case *ssa.UnOp:
		if x.Op != token.MUL {
			return false
		}
		// a load: from a field of a local variable -> whatever was stored there; otherwise from wherever the address points
		if fa, ok := x.X.(*ssa.FieldAddr); ok {
			if al, ok := fa.X.(*ssa.Alloc); ok {
				for _, ref := range *al.Referrers() {
					switch r := ref.(type) {
					case *ssa.FieldAddr:
						if r.Field != fa.Field {
							continue
						}
						for _, rr := range *r.Referrers() {
							if st, ok := rr.(*ssa.Store); ok && st.Addr == ssa.Value(r) && sharesInputMemory(st.Val, seen) {
								return true
							}
						}
					case *ssa.Store:
						if r.Addr == ssa.Value(al) && sharesInputMemory(r.Val, seen) {
							return true
						}
					}
				}
				return false
			}
		}
		if al, ok := x.X.(*ssa.Alloc); ok {
			for _, ref := range *al.Referrers() {
				if st, ok := ref.(*ssa.Store); ok && st.Addr == ssa.Value(al) && sharesInputMemory(st.Val, seen) {
					return true
				}
			}
			return false
		}
		return sharesInputMemory(x.X, seen)
	}
	return false
}
