package props

import (
	"fmt"
	"go/token"
	"go/types"
	"strconv"
	"strings"

	"golang.org/x/tools/go/ssa"

	"lincheck/internal/eng"
)

var _ = strings.HasPrefix
var _ = types.Identical

// Rules of round 11 (seeded changes m21).

// ---- C03-m21 (C03, C04): every working slice of the down-sampling is marked "not set" after it was obtained -------------------------
//
// DownSamplingMultiSeriesInto folds the source values into a block of target slots in which +Inf means "no value yet".  The
// block is a fresh array for narrow ranges and a POOLED slice (dirty, or zero) for ranges wider than 360 slots.  Whatever the
// block is, it is filled with +Inf after it was obtained and before a slot of it is read: a fill that runs before the pooled
// slice replaces the block leaves zeros / the previous series' values in every slot no source writes.
func downSamplingStartsFromUnset(c *eng.Ctx) {
	p := c.P
	c.Rule("RESET", "aggregation.DownSamplingMultiSeriesInto{the target block is filled with the not-set marker after it was obtained}", func() {
		f := c.Fn("aggregation.DownSamplingMultiSeriesInto")
		isFill := eng.CallTo("aggregation.fillInfBlock")
		fills := p.SitesDirect(f, isFill)
		c.Check(len(fills) >= 1, "fill-found", nil, f, "the target block is filled with +Inf", "no call of fillInfBlock")
		isF64Slice := func(t types.Type) bool {
			sl, ok := t.Underlying().(*types.Slice)
			if !ok {
				return false
			}
			b, ok := sl.Elem().Underlying().(*types.Basic)
			return ok && b.Kind() == types.Float64
		}
		// the element reads of a []float64 that the fill is applied to
		filled := map[ssa.Value]bool{} // cells (Alloc) or slice values handed to fillInfBlock
		for _, s := range fills {
			a := eng.CallArgs(s.Instr.(ssa.CallInstruction))
			if len(a) == 0 {
				continue
			}
			v := eng.Unwrap(a[0])
			if u, ok := v.(*ssa.UnOp); ok && u.Op == token.MUL {
				if al, isA := u.X.(*ssa.Alloc); isA {
					filled[al] = true
					continue
				}
			}
			filled[v] = true
		}
		n := 0
		for _, b := range f.Blocks {
			for _, in := range b.Instrs {
				u, ok := in.(*ssa.UnOp)
				if !ok || u.Op != token.MUL {
					continue
				}
				ia, ok := u.X.(*ssa.IndexAddr)
				if !ok || !isF64Slice(ia.X.Type()) {
					continue
				}
				// definitions of the slice that is read
				var defs []ssa.Instruction
				base := eng.Unwrap(ia.X)
				if lu, isL := base.(*ssa.UnOp); isL && lu.Op == token.MUL {
					if al, isA := lu.X.(*ssa.Alloc); isA {
						if !filled[al] {
							continue
						}
						for _, r := range *al.Referrers() {
							if st, isS := r.(*ssa.Store); isS && st.Addr == ssa.Value(al) && st.Parent() == f {
								// a re-slice of the block itself (block = block[:n]) obtains nothing new
								if sv, isSl := eng.Unwrap(st.Val).(*ssa.Slice); isSl {
									if su, isU := eng.Unwrap(sv.X).(*ssa.UnOp); isU && su.X == ssa.Value(al) {
										continue
									}
								}
								defs = append(defs, st)
							}
						}
					}
				}
				if defs == nil {
					okBase := false
					for _, src := range leafSourcesNoInline(base) {
						if filled[src] || filled[base] {
							okBase = true
						}
						if di, isI := src.(ssa.Instruction); isI && di.Parent() == f {
							defs = append(defs, di)
						}
					}
					if !okBase {
						// another []float64 (not the target block)
						continue
					}
				}
				n++
				for j, d := range defs {
					_, dirty := eng.PathExists(eng.PathQuery{Fn: f, After: d,
						Target:  func(x ssa.Instruction) bool { return x == ssa.Instruction(u) },
						Blocked: func(x ssa.Instruction) bool { return isFill(p, x) }})
					c.Check(!dirty, fmt.Sprintf("filled-after-obtained[%d,%d]", n, j), d, f,
						"+Inf marks a target slot no source value was folded into yet: the block - a fresh array or, beyond 360 slots, a pooled slice - is filled with it AFTER it was obtained and before a slot is read; a pooled slice that replaces the block after the fill starts from zeros or from the previous series' values",
						"the block obtained at "+p.InstrPos(d)+" reaches the slot read at "+p.InstrPos(u)+" without passing fillInfBlock")
				}
			}
		}
		c.Check(n >= 1, "slot-reads-found", nil, f, "the fold reads target slots of the filled block", fmt.Sprintf("%d reads", n))
	})
}

// ---- C11-m21 (C11): the memory result set reads the metric's slot range when the data is loaded ---------------------------------------------
//
// Between the filter step and the load step of one query the writer goroutine can compact a series: the compressed block then
// starts at an earlier slot than the range seen at filter time.  The TSD decoder only answers when it is asked for the
// block's own first slot first, so a loader that scans a range frozen at filter time gets "no value" for every point of the
// block.  The result set therefore keeps the POINTER to the live range and dereferences it in Load / SlotRange.
func loaderReadsTheLiveSlotRange(c *eng.Ctx) {
	p := c.P
	c.Rule("PROV", "tsdb/memdb.memFilterResultSet.Load{the slot range handed to the loader is read from the live range at load time}", func() {
		f := c.Fn("tsdb/memdb.memFilterResultSet.Load")
		mk := c.One(f, eng.CallTo("tsdb/memdb.NewTimeSeriesLoader"), "NewTimeSeriesLoader(db, index, highKey, slotRange, fields)")
		args := eng.CallArgs(mk.Instr.(*ssa.Call))
		var rng ssa.Value
		for _, a := range args {
			if nt, ok := a.Type().(*types.Named); ok && nt.Obj().Name() == "SlotRange" {
				rng = a
			}
		}
		if rng == nil {
			c.Undecided("unresolved anchor: NewTimeSeriesLoader takes no SlotRange argument")
		}
		frozen := ""
		for _, src := range leafSourcesNoInline(rng) {
			if u, ok := src.(*ssa.UnOp); ok && u.Op == token.MUL {
				if fa, isF := u.X.(*ssa.FieldAddr); isF && strings.HasPrefix(eng.FieldKeyOfAddr(fa), "tsdb/memdb.memFilterResultSet.") {
					// a field of the result set that holds the range BY VALUE: a copy taken when the result set was built
					frozen = eng.FieldKeyOfAddr(fa)
				}
			}
		}
		c.Check(frozen == "", "range-read-at-load-time", mk.Instr, f,
			"the writer goroutine keeps moving the metric's slot range (and compacts series) between the filter and the load step of a query: the loader is given the range as it is when Load runs - read through the pointer to the live range - not a copy taken at filter time, which can start after the first slot of a block compacted since and makes the decoder answer 'no value' for the whole block",
			"the range is the value stored in "+frozen+" when the result set was built")
		_ = p
	})
}

// ---- C12-m21 (C12): component i of a leaf's group key belongs to the i-th GROUP BY key of the statement --------------------------------------
//
// The leaf builds the group key by concatenating the tag values in the order of ShardExecuteContext.GroupByTags /
// GroupByTagKeyIDs; the root labels component i with statement.GroupBy[i] and merges the leaves by the concatenated string.
// Tag key ids are node-local, so any reordering by id (or by anything else) on a leaf makes two nodes disagree.  The two
// lists are therefore filled position by position from the statement's GROUP BY list and never reordered.
func groupKeyOrderIsTheStatementOrder(c *eng.Ctx) {
	p := c.P
	c.Rule("SYMMETRY", "query/operator.metadataLookup.groupBy{GroupByTags[i] / GroupByTagKeyIDs[i] belong to statement.GroupBy[i]}", func() {
		f := c.Fn("query/operator.metadataLookup.groupBy")
		fields := []string{"flow.StorageExecuteContext.GroupByTags", "flow.StorageExecuteContext.GroupByTagKeyIDs"}
		// (1) every element store into the two lists uses the position of the GROUP BY key it was looked up for
		n := 0
		for _, b := range eng.BlocksT(f) {
			for _, in := range b.Instrs {
				st, ok := in.(*ssa.Store)
				if !ok {
					continue
				}
				ia, ok := st.Addr.(*ssa.IndexAddr)
				if !ok || !eng.DependsOnField(ia.X, fields...) {
					continue
				}
				n++
				// the index is the range index of a loop over Query.GroupBy: the looked-up key is GroupBy[index]
				keyAt := false
				for _, b2 := range eng.BlocksT(f) {
					for _, in2 := range b2.Instrs {
						ia2, ok := in2.(*ssa.IndexAddr)
						if ok && eng.DependsOnField(ia2.X, "sql/stmt.Query.GroupBy") && eng.Unwrap(ia2.Index) == eng.Unwrap(ia.Index) {
							keyAt = true
						}
					}
				}
				c.Check(keyAt, fmt.Sprintf("filled-at-the-key's-position[%d]", n), in, in.Parent(),
					"entry i of GroupByTags / GroupByTagKeyIDs is the meta of statement.GroupBy[i]: the position written is the position the key was read at",
					"the entry is written at "+p.Desc(ia.Index)+", which is not the index GroupBy is read with")
			}
		}
		c.Check(n >= 2, "fills-found", nil, f, "groupBy fills GroupByTags and GroupByTagKeyIDs", fmt.Sprintf("%d element stores", n))
		// (2) nobody reorders them
		m := 0
		for _, s := range p.SitesInProgram(func(p *eng.Prog, in ssa.Instruction) bool {
			cl, ok := in.(*ssa.Call)
			if !ok || cl.Common().StaticCallee() == nil || cl.Common().StaticCallee().Pkg == nil {
				return false
			}
			pk := cl.Common().StaticCallee().Pkg.Pkg.Path()
			return pk == "sort" || pk == "slices"
		}) {
			m++
			a := eng.CallArgs(s.Instr.(*ssa.Call))
			if len(a) == 0 {
				continue
			}
			if eng.DependsOnField(a[0], fields...) {
				c.Check(false, "never-reordered@"+topFunc(c, s.Fn), s.Instr, s.Fn,
					"the order of the grouping keys on a leaf is the order of the statement's GROUP BY clause - the root labels the components of a group key by that order and merges leaves by the joined string; tag key ids are node-local, a list sorted by them differs between nodes",
					"the list is handed to "+calleeNameAny(s.Instr.(*ssa.Call)))
			}
		}
		c.Check(m >= 1, "sort-calls-seen", nil, nil, "the program calls package sort (positive example of the matcher)", "")
	})
}

// ---- C15-m21 (C15, C03): an edit-log record edits the level it names ------------------------------------------------------------------------
//
// A trivial move logs "delete file n from level L" and "add file n to level L+1" - the SAME file number in two levels of one
// edit log; the records are order-free only because each touches exactly the level it names.  A DeleteFile that removes the
// number from whichever level holds it deletes what the other record of the same log just added.
func editRecordTouchesOnlyItsLevel(c *eng.Ctx) {
	p := c.P
	c.Rule("OWNER", "kv/version.version.{AddFile,DeleteFile}{the level edited is the level of the record}", func() {
		n := 0
		for _, name := range []string{"AddFile", "DeleteFile"} {
			f := c.Fn("kv/version.version." + name)
			if len(f.Params) < 2 {
				c.Undecided("unresolved anchor: %s has no level parameter", name)
			}
			lvl := f.Params[1]
			for _, s := range p.Sites(f, eng.AnyCallTo("kv/version.level.addFile", "kv/version.level.deleteFile", "kv/version.level.addFiles")) {
				n++
				recv := eng.CallRecv(s.Instr.(*ssa.Call))
				okIdx := false
				var idxDesc string
				eng.WalkExpr(recv, func(x ssa.Value) bool {
					if ia, ok := x.(*ssa.IndexAddr); ok && eng.DependsOnField(ia.X, "kv/version.version.levels") {
						idxDesc = p.Desc(ia.Index)
						if eng.Unwrap(eng.UpParamVia(f, s, ia.Index)) == ssa.Value(lvl) {
							okIdx = true
						}
					}
					return true
				})
				c.Check(okIdx, fmt.Sprintf("%s-edits-levels[level][%d]", name, n), s.Instr, s.Fn,
					"an edit-log record edits exactly the level it names: a move puts the same file number into two records of one log (delete from L, add to L+1), which commute only then",
					"the level object edited is levels["+idxDesc+"]")
			}
		}
		c.Check(n >= 2, "level-edits-found", nil, nil, "AddFile and DeleteFile edit a level object", fmt.Sprintf("%d sites", n))
	})
}

// ---- C17-m21 (C17): a loop that enumerates a wire enum reaches its last constant ---------------------------------------------------------------
//
// Enum types that travel inside a statement (function.FuncType in CallExpr, the operators, ...) are written as numbers by the
// default JSON codec, which is total.  A textual codec needs a reverse table; when such a table (or any other per-constant
// structure in the enum's package) is built by a counting loop over the constants, the loop has to reach the LAST constant of
// the type: `for t := Sum; t <= Stddev; t++` silently leaves out Rate, which then decodes to Unknown on the leaf.
func enumLoopsReachTheLastConstant(c *eng.Ctx) {
	p := c.P
	c.Rule("EXHAUSTIVE", "sql/stmt{a counting loop over a wire enum covers every constant of the type}", func() {
		pk := p.Package("sql/stmt")
		if pk == nil {
			c.Undecided("sql/stmt not loaded")
		}
		// enum types reachable as field types of the statement structs
		enums := map[*types.Named]bool{}
		seenT := map[types.Type]bool{}
		var walk func(t types.Type, d int)
		walk = func(t types.Type, d int) {
			if t == nil || seenT[t] || d > 6 {
				return
			}
			seenT[t] = true
			switch x := t.(type) {
			case *types.Pointer:
				walk(x.Elem(), d+1)
			case *types.Slice:
				walk(x.Elem(), d+1)
			case *types.Map:
				walk(x.Elem(), d+1)
			case *types.Named:
				if x.Obj().Pkg() == nil || !strings.HasPrefix(x.Obj().Pkg().Path(), "github.com/lindb/lindb") {
					return
				}
				if b, ok := x.Underlying().(*types.Basic); ok && b.Info()&types.IsInteger != 0 {
					enums[x] = true
					return
				}
				if st, ok := x.Underlying().(*types.Struct); ok {
					for i := 0; i < st.NumFields(); i++ {
						walk(st.Field(i).Type(), d+1)
					}
				}
			}
		}
		sc := pk.Types.Scope()
		for _, name := range sc.Names() {
			if tn, ok := sc.Lookup(name).(*types.TypeName); ok {
				walk(tn.Type(), 0)
			}
		}
		nEnums, nLoops := 0, 0
		for t := range enums {
			// the constants of the type
			var max int64
			maxName := ""
			cnt := 0
			tsc := t.Obj().Pkg().Scope()
			for _, name := range tsc.Names() {
				if k, ok := tsc.Lookup(name).(*types.Const); ok && types.Identical(k.Type(), t) {
					if v, exact := constantInt64(k); exact {
						cnt++
						if maxName == "" || v > max {
							max, maxName = v, name
						}
					}
				}
			}
			if cnt < 2 {
				continue
			}
			nEnums++
			for _, fn := range p.AllFuncs {
				if fn.Pkg == nil || fn.Pkg.Pkg != t.Obj().Pkg() || len(fn.Blocks) == 0 {
					continue
				}
				for _, b := range fn.Blocks {
					for _, in := range b.Instrs {
						bo, ok := in.(*ssa.BinOp)
						if !ok {
							continue
						}
						x, y, op := bo.X, bo.Y, bo.Op
						if _, isC := x.(*ssa.Const); isC {
							x, y = y, x
							op = map[token.Token]token.Token{token.LSS: token.GTR, token.LEQ: token.GEQ, token.GTR: token.LSS, token.GEQ: token.LEQ}[op]
						}
						ph, isPhi := x.(*ssa.Phi)
						k, isK := eng.ConstInt(y)
						if !isPhi || !isK || !types.Identical(ph.Type(), t) || (op != token.LSS && op != token.LEQ) {
							continue
						}
						// a counter: one edge of the phi is the phi + 1
						counter := false
						for _, e := range ph.Edges {
							if base, off := eng.SplitConstOffset(e); off == 1 && eng.Unwrap(base) == ssa.Value(ph) {
								counter = true
							}
						}
						if !counter {
							continue
						}
						nLoops++
						last := k
						if op == token.LSS {
							last = k - 1
						}
						c.Check(last >= max, fmt.Sprintf("loop-covers:%s@%s", t.Obj().Name(), p.FuncKey(fn)), in, fn,
							"a loop that enumerates the constants of "+t.Obj().Name()+" (to build a name table, a codec, a validity test) runs up to its last constant "+maxName+": a constant left out is unknown to whatever the loop builds, and a statement that carries it changes on the wire",
							fmt.Sprintf("the loop stops at %d, the last constant %s is %d", last, maxName, max))
					}
				}
			}
		}
		c.Check(nEnums >= 3, "wire-enums-found", nil, nil, "the statement structs carry enum-typed fields (function type, operators, ...)", fmt.Sprintf("%d enum types, %d counting loops over them", nEnums, nLoops))
	})
}

func constantInt64(k *types.Const) (int64, bool) {
	v, err := strconv.ParseInt(k.Val().ExactString(), 10, 64)
	return v, err == nil
}

// ---- C20-m21 (C20): a built trie owns its vectors ------------------------------------------------------------------------------------------------
//
// Builder.Reset / Level.Reset truncate the level buffers and the next Build refills the same backing arrays.  The vectors of
// a trie handed out by Trie() are therefore copies: every slice an Init(levels, ...) method stores into its vector is memory
// made there, never a level's own buffer (which the next build of the pooled builder overwrites under the finished trie).
func trieVectorsOwnTheirMemory(c *eng.Ctx) {
	p := c.P
	c.Rule("PROV", "pkg/trie.*.Init{what a vector keeps is not a level buffer of the builder}", func() {
		n, m := 0, 0
		for _, f := range p.FuncsWithPrefix("pkg/trie.") {
			if baseName(f.Name()) != "Init" || len(f.Params) < 2 || len(f.Blocks) == 0 {
				continue
			}
			takesLevels := false
			for _, pr := range f.Params[1:] {
				if strings.Contains(pr.Type().String(), "trie.Level") {
					takesLevels = true
				}
			}
			if !takesLevels {
				continue
			}
			n++
			for _, b := range eng.BlocksT(f) {
				for _, in := range b.Instrs {
					st, ok := in.(*ssa.Store)
					if !ok {
						continue
					}
					fa, ok := st.Addr.(*ssa.FieldAddr)
					if !ok {
						continue
					}
					if _, isSl := st.Val.Type().Underlying().(*types.Slice); !isSl {
						continue
					}
					m++
					// a view of a Level's field is what must not be kept
					view := ""
					seenV := map[ssa.Value]bool{}
					var rec func(v ssa.Value, d int)
					rec = func(v ssa.Value, d int) {
						v = eng.Unwrap(v)
						if v == nil || seenV[v] || d > 8 {
							return
						}
						seenV[v] = true
						switch x := v.(type) {
						case *ssa.Phi:
							for _, e := range x.Edges {
								rec(e, d+1)
							}
						case *ssa.Slice:
							rec(x.X, d+1)
						case *ssa.Call:
							// append(dst, src...) copies src: the result is dst's array (or a new one)
							if bi, isB := x.Common().Value.(*ssa.Builtin); isB && bi.Name() == "append" {
								rec(x.Common().Args[0], d+1)
							}
						case *ssa.UnOp:
							if x.Op != token.MUL {
								return
							}
							switch a := x.X.(type) {
							case *ssa.FieldAddr:
								if strings.HasPrefix(eng.FieldKeyOfAddr(a), "pkg/trie.Level.") {
									view = eng.FieldKeyOfAddr(a)
								}
							case *ssa.IndexAddr:
								rec(a.X, d+1) // an element of a slice of slices
							case *ssa.Alloc:
								for _, src := range leafSources(x) {
									if src != ssa.Value(x) {
										rec(src, d+1)
									}
								}
							}
						}
					}
					rec(st.Val, 0)
					c.Check(view == "", fmt.Sprintf("%s:%s-is-its-own-memory", p.FuncKey(f), eng.FieldKeyOfAddr(fa)), in, f,
						"the builder is pooled: Reset truncates the level buffers and the next Build refills the same arrays - a vector of a finished trie that kept a level's buffer is overwritten under the trie; Init copies",
						"stores a view of "+view)
				}
			}
		}
		c.Check(n >= 3 && m >= 3, "vector-inits-found", nil, nil, "the trie's vectors are initialised from the builder's levels", fmt.Sprintf("%d Init(levels) methods, %d slice stores", n, m))
	})
}

// ---- F75 (C12, C19): "the last task collects" is decided on the value the decrement returned ------------------------------------------------
//
// The grouping tag values of a leaf are collected once, by the task that completes last.  CompleteGroupingTask decrements
// groupingRelatedTasks; whether THIS call was the last one is what the decrement returns.  Reading the counter again after
// the decrement lets two tasks that finish together both see zero: the collection runs twice, the first run drains the id
// bitmaps, the second replaces every collected map by nil and the groups of the leaf come back as "tag_value_not_found".
func lastTaskDecidedByTheDecrement(c *eng.Ctx) {
	p := c.P
	c.Rule("ATOMIC", "query/context.LeafGroupingContext.CompleteGroupingTask{the collection runs for the call whose decrement reached zero}", func() {
		f := c.Fn("query/context.LeafGroupingContext.CompleteGroupingTask")
		const ctr = "query/context.LeafGroupingContext.groupingRelatedTasks"
		var decs []ssa.Value
		for _, b := range eng.BlocksT(f) {
			for _, in := range b.Instrs {
				if fa, m, _ := eng.AtomicOp(in); fa != nil && eng.FieldKeyOfAddr(fa) == ctr && (m == "Dec" || m == "Add" || m == "Sub") {
					if v, ok := in.(ssa.Value); ok {
						decs = append(decs, v)
					}
				}
			}
		}
		if len(decs) != 1 {
			c.Undecided("unresolved anchor: expected one decrement of groupingRelatedTasks in CompleteGroupingTask, found %d", len(decs))
		}
		acts := c.Some(f, eng.AnyCallTo("flow.StorageExecuteContext.CollectTagValues"), "storageExecuteCtx.CollectTagValues(collect)")
		for i, a := range acts {
			conds, _ := eng.GuardingConds(f, a.Instr)
			byDec, byReload := false, false
			for _, cd := range conds {
				if eng.DependsOn(cd, func(x ssa.Value) bool { return x == decs[0] }) {
					byDec = true
				}
				if eng.DependsOn(cd, func(x ssa.Value) bool {
					in, ok := x.(ssa.Instruction)
					if !ok {
						return false
					}
					fa, m, _ := eng.AtomicOp(in)
					return fa != nil && eng.FieldKeyOfAddr(fa) == ctr && m == "Load"
				}) {
					byReload = true
				}
			}
			c.Check(byDec, fmt.Sprintf("collect-guarded-by-the-decrement's-result[%d]", i), a.Instr, f,
				"exactly one completing task collects the grouping tag values: the one whose decrement returned zero; a second read of the counter after the decrement is zero for every task that finishes in the same instant, the collection then runs twice and the second run (over the drained id bitmaps) replaces the collected values by nil",
				fmt.Sprintf("guarded by the decrement's result: %v, by a separate Load of the counter: %v", byDec, byReload))
		}
		_ = p
	})
}
