package props

import (
	"fmt"
	"go/types"
	"sort"
	"strings"

	"golang.org/x/tools/go/ssa"

	"lincheck/internal/eng"
)

// RESET rule: for a reusable (pooled / slot-reused) type T with reuse entry E, let Dirty(T) be the
// fields of T that some function other than E, E's helpers and T's constructors writes (a store to
// the field or an element of it, or a mutating method call on the sub-object held in it).  Every
// field in Dirty(T) must be re-initialised on every path of E that returns without poisoning the
// object (storing a non-nil error), directly or through another method of T called on the same
// receiver.  Fields may be exempted one by one with a reason.

var readOnlyMethods = map[string]bool{"Len": true, "Bytes": true, "String": true, "Error": true, "Size": true, "Cap": true, "Available": true,
	"IsEmpty": true, "Get": true, "Err": true, "Name": true, "Type": true, "Count": true, "Idx": true, "Buffered": true, "GetIdx": true}

var resetMethodNames = map[string]bool{"Reset": true, "SetBuf": true, "Truncate": true, "Init": true, "Clear": true, "SetIdx": true, "Purge": true}

// fieldOfT: if addr denotes field f (or an element / sub-field of it) of a value of named type T, return f.
func fieldOfT(p *eng.Prog, addr ssa.Value, tkey string) (string, ssa.Value) {
	for d := 0; d < 6 && addr != nil; d++ {
		switch a := addr.(type) {
		case *ssa.FieldAddr:
			k := eng.FieldKeyOfAddr(a)
			if strings.HasPrefix(k, tkey+".") && strings.Count(k[len(tkey)+1:], ".") == 0 {
				return k[len(tkey)+1:], a.X
			}
			addr = a.X
		case *ssa.IndexAddr:
			addr = a.X
		case *ssa.UnOp: // load of a pointer / slice held in the field
			addr = a.X
		case *ssa.Slice:
			addr = a.X
		default:
			return "", nil
		}
	}
	return "", nil
}

type fieldWrite struct {
	field string
	in    ssa.Instruction
	base  ssa.Value
	kind  string // store | call:<name>
}

func mutatingCallee(p *eng.Prog, c ssa.CallInstruction) (string, bool) {
	cc := c.Common()
	name := ""
	if cc.IsInvoke() {
		name = cc.Method.Name()
	} else if f := cc.StaticCallee(); f != nil {
		name = baseName(f.Name())
	} else {
		return "", false
	}
	if readOnlyMethods[name] || strings.HasPrefix(name, "Get") || strings.HasPrefix(name, "Is") || strings.HasPrefix(name, "Has") {
		return name, false
	}
	return name, true
}

// writesIn lists the writes to fields of T performed by fn (not following calls).
func writesIn(p *eng.Prog, fn *ssa.Function, tkey string) []fieldWrite {
	var out []fieldWrite
	for _, b := range fn.Blocks {
		for _, in := range b.Instrs {
			switch x := in.(type) {
			case *ssa.Store:
				if f, base := fieldOfT(p, x.Addr, tkey); f != "" {
					out = append(out, fieldWrite{f, in, base, "store"})
				}
			case *ssa.MapUpdate:
				if f, base := fieldOfT(p, x.Map, tkey); f != "" {
					out = append(out, fieldWrite{f, in, base, "store"})
				}
			case ssa.CallInstruction:
				cc := x.Common()
				name, mut := mutatingCallee(p, x)
				if !mut {
					continue
				}
				// receiver / first argument denotes the sub-object held in a field of T
				var recv ssa.Value
				if cc.IsInvoke() {
					recv = cc.Value
				} else if len(cc.Args) > 0 {
					recv = cc.Args[0]
				}
				if recv == nil {
					continue
				}
				if f, base := fieldOfT(p, recv, tkey); f != "" {
					out = append(out, fieldWrite{f, in, base, "call:" + name})
				}
			}
		}
	}
	return out
}

type resetSpec struct {
	T       string            // "pkg.Type"
	Entries []string          // reuse entry function keys
	Exempt  map[string]string // field -> reason
	Ctors   []string          // constructor function keys (writes there do not make a field dirty)
	// AllExits: the entry is the only writer of the type's fields and callers may go on using the object after the entry
	// reported an error; then every field the entry owns must be (re)written on EVERY path to a return, error returns included,
	// otherwise a rejected input leaves the previous use's state readable.
	AllExits bool
	// NotDirtying lists functions whose writes do not count (e.g. the other reuse entries)
}

func resetRule(c *eng.Ctx, spec resetSpec) {
	p := c.P
	i := strings.LastIndex(spec.T, ".")
	nt := p.LookupType(spec.T[:i], spec.T[i+1:])
	if nt == nil {
		c.Undecided("type %s not found", spec.T)
	}
	st, ok := nt.Underlying().(*types.Struct)
	if !ok {
		c.Undecided("%s is not a struct", spec.T)
	}
	entrySet := map[string]bool{}
	for _, e := range spec.Entries {
		entrySet[e] = true
	}
	ctorSet := map[string]bool{}
	for _, e := range spec.Ctors {
		ctorSet[e] = true
	}
	// helpers of the entries: methods of T called (statically) from an entry on the same receiver
	var helperOf func(fn *ssa.Function, d int)
	helpers := map[*ssa.Function]bool{}
	helperOf = func(fn *ssa.Function, d int) {
		if d > 3 {
			return
		}
		for _, b := range fn.Blocks {
			for _, in := range b.Instrs {
				if cl, ok := in.(*ssa.Call); ok {
					if f := cl.Common().StaticCallee(); f != nil && f.Signature.Recv() != nil && strings.HasPrefix(p.FuncKey(f), spec.T+".") && !helpers[f] && f.Blocks != nil {
						helpers[f] = true
						helperOf(f, d+1)
					}
				}
			}
		}
	}
	var entries []*ssa.Function
	for _, e := range spec.Entries {
		fn := c.Fn(e)
		entries = append(entries, fn)
		helperOf(fn, 0)
	}
	// Dirty(T)
	dirty := map[string]string{}
	for _, fn := range p.AllFuncs {
		k := p.FuncKey(fn)
		top := topFunc(c, fn)
		if entrySet[k] || entrySet[top] || ctorSet[k] || ctorSet[top] || helpers[fn] {
			continue
		}
		if !strings.HasPrefix(eng.PkgOf(fn), spec.T[:i]) && !strings.Contains(k, spec.T[i+1:]) {
			// only the package of T can touch unexported fields; exported fields are searched module-wide
			exported := false
			for j := 0; j < st.NumFields(); j++ {
				if st.Field(j).Exported() {
					exported = true
				}
			}
			if !exported {
				continue
			}
		}
		for _, w := range writesIn(p, fn, spec.T) {
			if _, seen := dirty[w.field]; !seen {
				dirty[w.field] = k + " (" + w.kind + " at " + p.InstrPos(w.in) + ")"
			}
		}
	}
	var fields []string
	for f := range dirty {
		fields = append(fields, f)
	}
	sort.Strings(fields)
	if len(fields) == 0 && spec.AllExits {
		for _, e := range entries {
			own := map[string][]ssa.Instruction{}
			for _, w := range writesIn(p, e, spec.T) {
				if w.kind == "store" {
					own[w.field] = append(own[w.field], w.in)
				}
			}
			var names []string
			for f := range own {
				names = append(names, f)
			}
			sort.Strings(names)
			c.Check(len(names) > 0, p.FuncKey(e)+"@owns-fields", nil, e, "the reuse entry writes the fields of "+spec.T, "no field store found")
			for _, f := range names {
				ws := map[ssa.Instruction]bool{}
				for _, in := range own[f] {
					ws[in] = true
				}
				at, leak := eng.PathExists(eng.PathQuery{Fn: e,
					Target:  func(in ssa.Instruction) bool { _, ok := in.(*ssa.Return); return ok && in.Block() != e.Recover },
					Blocked: func(in ssa.Instruction) bool { return ws[in] }})
				c.Check(!leak, fmt.Sprintf("%s:%s@every-exit", p.FuncKey(e), f), at, e,
					"field "+f+" is re-initialised on every path of "+p.FuncKey(e)+" to a return, error returns included (a rejected input does not leave the previous table readable)",
					"a return is reachable without any write of "+f)
			}
		}
		return
	}
	if len(fields) == 0 {
		c.Check(st.NumFields() > 0, spec.T+"@only-entry-writes", nil, nil, "no field of "+spec.T+" is written outside its reuse entries and constructors (nothing can be left over from a previous use)", "type has no fields")
		return
	}
	for _, e := range entries {
		for _, f := range fields {
			if why, ok := spec.Exempt[f]; ok {
				c.Check(true, fmt.Sprintf("%s:%s:exempt", p.FuncKey(e), f), nil, e, "field "+f+" need not be reset: "+why, "")
				continue
			}
			ok, why := resetsOnAllPaths(p, e, spec.T, f, 0, map[*ssa.Function]bool{})
			c.Check(ok, fmt.Sprintf("%s:%s", p.FuncKey(e), f), nil, e,
				fmt.Sprintf("reuse entry %s re-initialises field %s (dirtied by %s) on every non-poisoning path", p.FuncKey(e), f, dirty[f]), why)
		}
	}
}

// resetsOnAllPaths: every path of fn from entry to a return that does not store a non-nil error passes
// a write of field f (store, reset-like sub-object call) or a call of another method of T on the
// receiver that does so.
func resetsOnAllPaths(p *eng.Prog, fn *ssa.Function, tkey, f string, depth int, stack map[*ssa.Function]bool) (bool, string) {
	if fn == nil || fn.Blocks == nil || stack[fn] || depth > 3 {
		return false, "recursion bound"
	}
	stack[fn] = true
	defer delete(stack, fn)
	way := map[ssa.Instruction]bool{}
	for _, w := range writesIn(p, fn, tkey) {
		if w.field != f {
			continue
		}
		if w.kind == "store" {
			// an element store (w.b[0] = 0) or a plain store both count
			way[w.in] = true
			continue
		}
		name := strings.TrimPrefix(w.kind, "call:")
		if resetMethodNames[name] || strings.HasPrefix(name, "Reset") {
			way[w.in] = true
		}
	}
	for _, b := range fn.Blocks {
		for _, in := range b.Instrs {
			// *recv = T{…}: the whole object is replaced, every field gets the literal's value (or its zero value)
			if st, isStore := in.(*ssa.Store); isStore && len(fn.Params) > 0 && st.Addr == ssa.Value(fn.Params[0]) && fn.Signature.Recv() != nil {
				way[in] = true
				continue
			}
			cl, ok := in.(*ssa.Call)
			if !ok {
				continue
			}
			cal := cl.Common().StaticCallee()
			if cal == nil || cal.Signature.Recv() == nil || !strings.HasPrefix(p.FuncKey(cal), tkey+".") || cal.Blocks == nil {
				continue
			}
			if len(cl.Common().Args) > 0 && len(fn.Params) > 0 && cl.Common().Args[0] == ssa.Value(fn.Params[0]) {
				if ok, _ := resetsOnAllPaths(p, cal, tkey, f, depth+1, stack); ok {
					way[in] = true
				}
			}
		}
	}
	// poisoned returns: a path that stores a non-nil value into an `err` field before returning is exempt
	poison := map[ssa.Instruction]bool{}
	for _, w := range writesIn(p, fn, tkey) {
		if w.field == "err" && w.kind == "store" {
			if st, ok := w.in.(*ssa.Store); ok && !eng.IsNilConst(st.Val) {
				poison[w.in] = true
			}
		}
	}
	_, leak := eng.PathExists(eng.PathQuery{Fn: fn,
		Target:  func(in ssa.Instruction) bool { _, ok := in.(*ssa.Return); return ok && in.Block() != fn.Recover },
		Blocked: func(in ssa.Instruction) bool { return way[in] || poison[in] }})
	if leak {
		return false, "a path of " + p.FuncKey(fn) + " returns without re-initialising " + f
	}
	return true, ""
}
