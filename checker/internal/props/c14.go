package props

import (
	"fmt"
	"strings"

	"golang.org/x/tools/go/ssa"

	"lincheck/internal/eng"
)

func init() {
	register(eng.Property{
		ID:    "C14",
		Title: "Storage codecs are lossless",
		Explanation: "Decides only the reuse-history clause, structurally: for every pooled or re-used encoder/decoder object, each field (or sub-object, or array element) that any method " +
			"outside the reuse entry writes is re-initialised on every non-failing path of the reuse entry (directly or through the type's own reset helpers); pool getters hand out objects only through " +
			"such an entry or a constructor; and a compressed chunk handed out by the pooled snappy writer is a fresh copy made before the writer's buffer is reset (no aliasing of re-used storage).",
		NotDecided: "bit-level losslessness of any codec for any input, agreement of slot-addressed and sequential reads — numeric value properties.",
		MinObls:    45,
		Run:        runC14,
	})
}

func runC14(c *eng.Ctx) {
	p := c.P
	specs := []resetSpec{
		{T: "pkg/bit.Writer", Entries: []string{"pkg/bit.Writer.Reset"}, Ctors: []string{"pkg/bit.NewWriter"}},
		{T: "pkg/bit.Reader", Entries: []string{"pkg/bit.Reader.Reset"}, Ctors: []string{"pkg/bit.NewReader"},
			Exempt: map[string]string{"buf": "the shared byte buffer is re-pointed by the owning decoder (Buffer.SetBuf / SetIdx) before Reader.Reset; checked by the owners' instances"}},
		{T: "pkg/encoding.XOREncoder", Entries: []string{"pkg/encoding.XOREncoder.Reset"}, Ctors: []string{"pkg/encoding.NewXOREncoder"},
			Exempt: map[string]string{"bw": "the bit writer is owned and reset by the enclosing TSDEncoder (instance below)"}},
		{T: "pkg/encoding.XORDecoder", Entries: []string{"pkg/encoding.XORDecoder.Reset"}, Ctors: []string{"pkg/encoding.NewXORDecoder"},
			Exempt: map[string]string{"br": "the bit reader is owned and reset by the enclosing TSDDecoder (instance below)"}},
		{T: "pkg/encoding.TSDEncoder", Entries: []string{"pkg/encoding.TSDEncoder.RestWithStartTime"}, Ctors: []string{"pkg/encoding.NewTSDEncoder"}},
		{T: "pkg/encoding.TSDDecoder", Entries: []string{"pkg/encoding.TSDDecoder.Reset", "pkg/encoding.TSDDecoder.ResetWithTimeRange"}, Ctors: []string{"pkg/encoding.NewTSDDecoder"}},
		{T: "pkg/encoding.DeltaBitPackingEncoder", Entries: []string{"pkg/encoding.DeltaBitPackingEncoder.Reset"}, Ctors: []string{"pkg/encoding.NewDeltaBitPackingEncoder"}},
		{T: "pkg/encoding.DeltaBitPackingDecoder", Entries: []string{"pkg/encoding.DeltaBitPackingDecoder.Reset"}, Ctors: []string{"pkg/encoding.NewDeltaBitPackingDecoder"}},
		{T: "pkg/encoding.FixedOffsetEncoder", Entries: []string{"pkg/encoding.FixedOffsetEncoder.Reset", "pkg/encoding.FixedOffsetEncoder.FromValues"}, Ctors: []string{"pkg/encoding.NewFixedOffsetEncoder"}},
		{T: "pkg/encoding.FixedOffsetDecoder", Entries: []string{"pkg/encoding.FixedOffsetDecoder.Unmarshal"}, Ctors: []string{"pkg/encoding.NewFixedOffsetDecoder"}, AllExits: true},
		{T: "pkg/stream.BufferWriter", Entries: []string{"pkg/stream.BufferWriter.Reset"}, Ctors: []string{"pkg/stream.NewBufferWriter"}},
		{T: "pkg/stream.Reader", Entries: []string{"pkg/stream.Reader.Reset"}, Ctors: []string{"pkg/stream.NewReader"}},
		{T: "pkg/bufioutil.Buffer", Entries: []string{"pkg/bufioutil.Buffer.SetBuf"}, Ctors: []string{"pkg/bufioutil.NewBuffer"}},
	}
	for _, s := range specs {
		s := s
		c.Rule("RESET", s.T, func() { resetRule(c, s) })
	}

	// pool getters: an object leaves the pool only through a reuse entry or a constructor
	c.Rule("PROV", "pkg/encoding{pool getters}", func() {
		g := c.Fn("pkg/encoding.GetTSDEncoder")
		get := c.One(g, invokeOn("encoderPool", "Get"), "encoderPool.Get()")
		rs := c.Some(g, eng.CallTo("pkg/encoding.TSDEncoder.RestWithStartTime"), "encoder.RestWithStartTime(startTime)")
		for i, r := range eng.SuccessReturns(g) {
			v := eng.RetVal(r, 0)
			fromPool := eng.DependsOn(v, func(x ssa.Value) bool { return x == get.Instr.(ssa.Value) })
			if fromPool {
				c.Check(eng.DominatedBy(g, r, rs, nil), fmt.Sprintf("pooled-encoder-reset[%d]", i), r, g, "an encoder taken from the pool is reset before it is handed out", "")
				a := eng.CallArgs(rs[0].Instr.(*ssa.Call))
				c.Check(p.Desc(a[0]) == "startTime", fmt.Sprintf("reset-with-requested-start[%d]", i), rs[0].Instr, g, "it is reset to the requested start slot", "")
			} else {
				c.Check(strings.Contains(p.Desc(v), "NewTSDEncoder"), fmt.Sprintf("fresh-encoder[%d]", i), r, g, "otherwise a fresh encoder is constructed", "returns "+p.Desc(v))
			}
		}
		// decoders from the pool are always (re)initialised by their users through Reset/ResetWithTimeRange/Unmarshal before use
		for _, getter := range []struct{ fn, reset string }{
			{"pkg/encoding.GetTSDDecoder", "pkg/encoding.TSDDecoder.Reset|pkg/encoding.TSDDecoder.ResetWithTimeRange"},
			{"pkg/encoding.GetFixedOffsetDecoder", "pkg/encoding.FixedOffsetDecoder.Unmarshal"},
		} {
			gf := c.Fn(getter.fn)
			n := 0
			for _, cs := range p.StaticCallers(gf) {
				call, ok := cs.Instr.(*ssa.Call)
				if !ok {
					continue
				}
				n++
				resets := strings.Split(getter.reset, "|")
				// first use of the value on every path is a reset entry: any other method call on it must be dominated by one
				rsites := p.Sites(cs.Fn, func(p *eng.Prog, in ssa.Instruction) bool {
					cl, ok := in.(*ssa.Call)
					if !ok || !inList(strings.Join(p.CalleeKeys(cl), ""), resets) {
						return false
					}
					r := eng.CallRecv(cl)
					return r != nil && (eng.DerivesFromCall(r, call, 0) || eng.SameValue(r, call))
				})
				uses := p.Sites(cs.Fn, func(p *eng.Prog, in ssa.Instruction) bool {
					cl, ok := in.(*ssa.Call)
					if !ok || inList(strings.Join(p.CalleeKeys(cl), ""), resets) {
						return false
					}
					r := eng.CallRecv(cl)
					if r == nil || !(eng.DerivesFromCall(r, call, 0) || eng.SameValue(r, call)) {
						return false
					}
					f := cl.Common().StaticCallee()
					return f != nil && strings.HasPrefix(p.FuncKey(f), strings.Split(resets[0], ".")[0]+"."+strings.Split(resets[0], ".")[1]+".")
				})
				okAll := true
				for _, u := range uses {
					if !eng.DominatedBy(cs.Fn, u.Instr, rsites, nil) {
						okAll = false
					}
				}
				escapes := len(rsites) == 0 && len(uses) == 0 // stored in a field / returned: the holder resets before use (its own code is analysed at that site)
				c.Check(okAll || escapes, "pooled-decoder-reset-before-use:"+p.FuncKey(cs.Fn), call, cs.Fn,
					"a decoder taken from the pool is re-initialised (Reset / ResetWithTimeRange / Unmarshal) before any other method is called on it", "a method is called on the pooled decoder before a reset")
			}
			if n == 0 {
				c.Check(false, "getter-used:"+getter.fn, nil, gf, "the pool getter has call sites", "none found")
			}
		}
	})

	// the long-lived snappy reader starts every chunk from a clean context, also after a chunk that failed
	c.Rule("PASS", "pkg/compress.snappyReader.Uncompress{context reset on every exit}", func() {
		f := c.Fn("pkg/compress.snappyReader.Uncompress")
		for _, x := range []struct{ recv, m, what string }{
			{".compressed", "Reset", "the input buffer"}, {".decompressed", "Reset", "the output buffer"}, {".reader", "Reset", "the s2 reader (drops a sticky decode error)"},
		} {
			ok, how := passesOnEveryExit(p, f, invokeOn(x.recv, x.m))
			c.Check(ok, "reset"+x.recv, nil, f, x.what+" is reset on every exit of Uncompress, failing exits included (one damaged chunk does not poison the chunks that follow)", how)
		}
	})

	// the pooled snappy writer hands out copies
	c.Rule("PROV", "pkg/compress.snappyWriter.Bytes{no aliasing}", func() {
		f := c.Fn("pkg/compress.snappyWriter.Bytes")
		src := c.One(f, invokeOn(".buffer", "Bytes"), "w.buffer.Bytes()")
		rsts := c.Some(f, invokeOn(".buffer", "Reset"), "w.buffer.Reset()")
		for i, r := range eng.SuccessReturns(f) {
			v := eng.RetVal(r, 0)
			_, fresh := eng.Unwrap(v).(*ssa.MakeSlice)
			if !fresh {
				if cl, ok := eng.Unwrap(v).(*ssa.Call); ok {
					k := strings.Join(p.CalleeKeys(cl), "")
					fresh = strings.HasSuffix(k, "MustCopy") || strings.HasSuffix(k, "bytes.Clone") || k == "builtin:append" && eng.IsNilConst(cl.Common().Args[0])
				}
			}
			alias := eng.DependsOn(v, func(x ssa.Value) bool { return x == src.Instr.(ssa.Value) }) && !fresh
			c.Check(fresh && !alias, fmt.Sprintf("returns-fresh-copy[%d]", i), r, f,
				"the chunk handed out is a freshly allocated copy, not a view of the writer's re-used buffer (a later chunk would overwrite it)", "returns "+p.Desc(v))
		}
		cp := p.Sites(f, eng.CallTo("builtin:copy"))
		okCopy := false
		for _, s := range cp {
			a := s.Instr.(*ssa.Call).Common().Args
			if eng.DependsOn(a[1], func(x ssa.Value) bool { return x == src.Instr.(ssa.Value) }) {
				okCopy = true
				for _, rs := range rsts {
					c.Check(eng.DominatedBy(f, rs.Instr, []eng.Site{s}, nil), "copy-before-reset", rs.Instr, f, "the bytes are copied out before the buffer is reset", "")
				}
			}
		}
		c.Check(okCopy, "copies-the-compressed-bytes", nil, f, "the compressed bytes are copied into the result", "no copy(dst, buffer.Bytes()) found")
		c.Check(p.MustPass(f, invokeOn(".writer", "Reset"), 0) && p.MustPass(f, invokeOn(".buffer", "Reset"), 0), "context-reset-for-next-chunk", nil, f, "the compress context is reset for the next chunk on every path", "")
	})
}
