package props

import (
	"fmt"
	"go/token"
	"strings"

	"golang.org/x/tools/go/ssa"

	"lincheck/internal/eng"
)

func init() {
	register(eng.Property{
		ID:    "C14",
		Title: "Storage codecs are lossless",
		Explanation: "Decides only the reuse-history clause, structurally: for every pooled or re-used encoder/decoder object, each field (or sub-object, or array element) that any method " +
			"outside the reuse entry writes is re-initialised on every non-failing path of the reuse entry (directly or through the type's own reset helpers); pool getters hand out objects only through " +
			"such an entry or a constructor; and a compressed chunk handed out by the pooled snappy writer is a fresh copy made before the writer's buffer is reset (no aliasing of re-used storage).",
		NotDecided: "bit-level losslessness of any codec for any input, agreement of slot-addressed and sequential reads — numeric value properties.",
		MinObls:    45,
		Run:        runC14,
	})
}

func runC14(c *eng.Ctx) {
	seekSkipsEmptySlots(c)
	bitReaderFetchesOnlyWhenNeeded(c)
	decoderAcceptsTheShortestBlock(c)
	streamWriterKeepsNoReferenceToTheBlock(c)
	decompressionReadsTheWholeStream(c)
	p := c.P
	deltaWidthCoversEveryDelta(c)
	fixedOffsetReadsItsOwnBytes(c)
	specs := []resetSpec{
		{T: "pkg/bit.Writer", Entries: []string{"pkg/bit.Writer.Reset"}, Ctors: []string{"pkg/bit.NewWriter"}},
		{T: "pkg/bit.Reader", Entries: []string{"pkg/bit.Reader.Reset"}, Ctors: []string{"pkg/bit.NewReader"},
			Exempt: map[string]string{"buf": "the shared byte buffer is re-pointed by the owning decoder (Buffer.SetBuf / SetIdx) before Reader.Reset; checked by the owners' instances"}},
		{T: "pkg/encoding.XOREncoder", Entries: []string{"pkg/encoding.XOREncoder.Reset"}, Ctors: []string{"pkg/encoding.NewXOREncoder"},
			Exempt: map[string]string{"bw": "the bit writer is owned and reset by the enclosing TSDEncoder (instance below)"}},
		{T: "pkg/encoding.XORDecoder", Entries: []string{"pkg/encoding.XORDecoder.Reset"}, Ctors: []string{"pkg/encoding.NewXORDecoder"},
			Exempt: map[string]string{"br": "the bit reader is owned and reset by the enclosing TSDDecoder (instance below)"}},
		{T: "pkg/encoding.TSDEncoder", Entries: []string{"pkg/encoding.TSDEncoder.RestWithStartTime"}, Ctors: []string{"pkg/encoding.NewTSDEncoder"}},
		{T: "pkg/encoding.TSDDecoder", Entries: []string{"pkg/encoding.TSDDecoder.Reset", "pkg/encoding.TSDDecoder.ResetWithTimeRange"}, Ctors: []string{"pkg/encoding.NewTSDDecoder"}},
		{T: "pkg/encoding.DeltaBitPackingEncoder", Entries: []string{"pkg/encoding.DeltaBitPackingEncoder.Reset"}, Ctors: []string{"pkg/encoding.NewDeltaBitPackingEncoder"}},
		{T: "pkg/encoding.DeltaBitPackingDecoder", Entries: []string{"pkg/encoding.DeltaBitPackingDecoder.Reset"}, Ctors: []string{"pkg/encoding.NewDeltaBitPackingDecoder"}},
		{T: "pkg/encoding.FixedOffsetEncoder", Entries: []string{"pkg/encoding.FixedOffsetEncoder.Reset", "pkg/encoding.FixedOffsetEncoder.FromValues"}, Ctors: []string{"pkg/encoding.NewFixedOffsetEncoder"}},
		{T: "pkg/encoding.FixedOffsetDecoder", Entries: []string{"pkg/encoding.FixedOffsetDecoder.Unmarshal"}, Ctors: []string{"pkg/encoding.NewFixedOffsetDecoder"}, AllExits: true},
		{T: "pkg/stream.BufferWriter", Entries: []string{"pkg/stream.BufferWriter.Reset"}, Ctors: []string{"pkg/stream.NewBufferWriter"}},
		{T: "pkg/stream.Reader", Entries: []string{"pkg/stream.Reader.Reset"}, Ctors: []string{"pkg/stream.NewReader"}},
		{T: "pkg/bufioutil.Buffer", Entries: []string{"pkg/bufioutil.Buffer.SetBuf"}, Ctors: []string{"pkg/bufioutil.NewBuffer"}},
	}
	for _, s := range specs {
		s := s
		c.Rule("RESET", s.T, func() { resetRule(c, s) })
	}

	// pool getters: an object leaves the pool only through a reuse entry or a constructor
	c.Rule("PROV", "pkg/encoding{pool getters}", func() {
		g := c.Fn("pkg/encoding.GetTSDEncoder")
		get := c.One(g, invokeOn("encoderPool", "Get"), "encoderPool.Get()")
		rs := c.Some(g, eng.CallTo("pkg/encoding.TSDEncoder.RestWithStartTime"), "encoder.RestWithStartTime(startTime)")
		for i, r := range eng.SuccessReturns(g) {
			v := eng.RetVal(r, 0)
			fromPool := eng.DependsOn(v, func(x ssa.Value) bool { return x == get.Instr.(ssa.Value) })
			if fromPool {
				c.Check(eng.DominatedBy(g, r, rs, nil), fmt.Sprintf("pooled-encoder-reset[%d]", i), r, g, "an encoder taken from the pool is reset before it is handed out", "")
				a := eng.CallArgs(rs[0].Instr.(*ssa.Call))
				c.Check(p.Desc(a[0]) == "startTime", fmt.Sprintf("reset-with-requested-start[%d]", i), rs[0].Instr, g, "it is reset to the requested start slot", "")
			} else {
				c.Check(strings.Contains(p.Desc(v), "NewTSDEncoder"), fmt.Sprintf("fresh-encoder[%d]", i), r, g, "otherwise a fresh encoder is constructed", "returns "+p.Desc(v))
			}
		}
		// decoders from the pool are always (re)initialised by their users through Reset/ResetWithTimeRange/Unmarshal before use
		for _, getter := range []struct{ fn, reset string }{
			{"pkg/encoding.GetTSDDecoder", "pkg/encoding.TSDDecoder.Reset|pkg/encoding.TSDDecoder.ResetWithTimeRange"},
			{"pkg/encoding.GetFixedOffsetDecoder", "pkg/encoding.FixedOffsetDecoder.Unmarshal"},
		} {
			gf := c.Fn(getter.fn)
			n := 0
			for _, cs := range p.StaticCallers(gf) {
				call, ok := cs.Instr.(*ssa.Call)
				if !ok {
					continue
				}
				n++
				resets := strings.Split(getter.reset, "|")
				// first use of the value on every path is a reset entry: any other method call on it must be dominated by one
				rsites := p.Sites(cs.Fn, func(p *eng.Prog, in ssa.Instruction) bool {
					cl, ok := in.(*ssa.Call)
					if !ok || !inList(strings.Join(p.CalleeKeys(cl), ""), resets) {
						return false
					}
					r := eng.CallRecv(cl)
					return r != nil && (eng.DerivesFromCall(r, call, 0) || eng.SameValue(r, call))
				})
				uses := p.Sites(cs.Fn, func(p *eng.Prog, in ssa.Instruction) bool {
					cl, ok := in.(*ssa.Call)
					if !ok || inList(strings.Join(p.CalleeKeys(cl), ""), resets) {
						return false
					}
					r := eng.CallRecv(cl)
					if r == nil || !(eng.DerivesFromCall(r, call, 0) || eng.SameValue(r, call)) {
						return false
					}
					f := cl.Common().StaticCallee()
					return f != nil && strings.HasPrefix(p.FuncKey(f), strings.Split(resets[0], ".")[0]+"."+strings.Split(resets[0], ".")[1]+".")
				})
				okAll := true
				for _, u := range uses {
					if !eng.DominatedBy(cs.Fn, u.Instr, rsites, nil) {
						okAll = false
					}
				}
				escapes := len(rsites) == 0 && len(uses) == 0 // stored in a field / returned: the holder resets before use (its own code is analysed at that site)
				c.Check(okAll || escapes, "pooled-decoder-reset-before-use:"+p.FuncKey(cs.Fn), call, cs.Fn,
					"a decoder taken from the pool is re-initialised (Reset / ResetWithTimeRange / Unmarshal) before any other method is called on it", "a method is called on the pooled decoder before a reset")
			}
			if n == 0 {
				c.Check(false, "getter-used:"+getter.fn, nil, gf, "the pool getter has call sites", "none found")
			}
		}
	})

	// the long-lived snappy reader starts every chunk from a clean context, also after a chunk that failed
	c.Rule("PASS", "pkg/compress.snappyReader.Uncompress{context reset on every exit}", func() {
		f := c.Fn("pkg/compress.snappyReader.Uncompress")
		for _, x := range []struct{ recv, m, what string }{
			{".compressed", "Reset", "the input buffer"}, {".decompressed", "Reset", "the output buffer"}, {".reader", "Reset", "the s2 reader (drops a sticky decode error)"},
		} {
			ok, how := passesOnEveryExit(p, f, invokeOn(x.recv, x.m))
			c.Check(ok, "reset"+x.recv, nil, f, x.what+" is reset on every exit of Uncompress, failing exits included (one damaged chunk does not poison the chunks that follow)", how)
		}
	})

	// the pooled snappy writer hands out copies
	c.Rule("PROV", "pkg/compress.snappyWriter.Bytes{no aliasing}", func() {
		f := c.Fn("pkg/compress.snappyWriter.Bytes")
		src := c.One(f, invokeOn(".buffer", "Bytes"), "w.buffer.Bytes()")
		rsts := c.Some(f, invokeOn(".buffer", "Reset"), "w.buffer.Reset()")
		for i, r := range eng.SuccessReturns(f) {
			v := eng.RetVal(r, 0)
			_, fresh := eng.Unwrap(v).(*ssa.MakeSlice)
			if !fresh {
				if cl, ok := eng.Unwrap(v).(*ssa.Call); ok {
					k := strings.Join(p.CalleeKeys(cl), "")
					fresh = strings.HasSuffix(k, "MustCopy") || strings.HasSuffix(k, "bytes.Clone") || k == "builtin:append" && eng.IsNilConst(cl.Common().Args[0])
				}
			}
			alias := eng.DependsOn(v, func(x ssa.Value) bool { return x == src.Instr.(ssa.Value) }) && !fresh
			c.Check(fresh && !alias, fmt.Sprintf("returns-fresh-copy[%d]", i), r, f,
				"the chunk handed out is a freshly allocated copy, not a view of the writer's re-used buffer (a later chunk would overwrite it)", "returns "+p.Desc(v))
		}
		cp := p.Sites(f, eng.CallTo("builtin:copy"))
		okCopy := false
		for _, s := range cp {
			a := s.Instr.(*ssa.Call).Common().Args
			if eng.DependsOn(a[1], func(x ssa.Value) bool { return x == src.Instr.(ssa.Value) }) {
				okCopy = true
				for _, rs := range rsts {
					c.Check(eng.DominatedBy(f, rs.Instr, []eng.Site{s}, nil), "copy-before-reset", rs.Instr, f, "the bytes are copied out before the buffer is reset", "")
				}
			}
		}
		c.Check(okCopy, "copies-the-compressed-bytes", nil, f, "the compressed bytes are copied into the result", "no copy(dst, buffer.Bytes()) found")
		c.Check(p.MustPass(f, invokeOn(".writer", "Reset"), 0) && p.MustPass(f, invokeOn(".buffer", "Reset"), 0), "context-reset-for-next-chunk", nil, f, "the compress context is reset for the next chunk on every path", "")
	})

	// the "no value in this slot" sentinel is +Inf and nothing else
	c.Rule("SYMMETRY", "pkg/encoding,aggregation{empty-slot sentinel = +Inf}", func() { emptySentinelIsPlusInf(c) })

	// the offset table's width covers its largest offset
	// ---- the XOR codec's window: writer and reader start every block from the same (leading, trailing) ---------------------------------
	// (the encoder re-uses "the previous window" without writing it whenever the new value fits inside; what the previous window
	// is before any was written is a convention both sides must share - any leading-zero count 0..63 is a real window)
	c.Rule("SYMMETRY", "pkg/encoding.XOREncoder/XORDecoder{initial window}", func() {
		initial := func(typ, field string, fns ...string) (vals map[string]bool, n int) {
			vals = map[string]bool{}
			for _, k := range fns {
				f := c.Fn(k)
				sites := p.Sites(f, eng.StoreField("pkg/encoding."+typ+"."+field))
				if len(sites) == 0 {
					vals["0"] = true // left at the zero value
					n++
				}
				for _, s := range sites {
					v, _ := storedValue(s.Instr)
					n++
					if k, ok := v.(*ssa.Const); ok && k.Value != nil {
						vals[k.Value.ExactString()] = true
					} else {
						vals["?"+p.Desc(v)] = true
					}
				}
			}
			return
		}
		for _, field := range []string{"leading", "trailing"} {
			ev, _ := initial("XOREncoder", field, "pkg/encoding.NewXOREncoder", "pkg/encoding.XOREncoder.Reset")
			dv, _ := initial("XORDecoder", field, "pkg/encoding.NewXORDecoder", "pkg/encoding.XORDecoder.Reset")
			c.Check(len(ev) == 1 && len(dv) == 1 && keysOfBool(ev) == keysOfBool(dv), "same-initial-"+field, nil, c.Fn("pkg/encoding.XOREncoder.Reset"),
				"constructor and Reset of the encoder and of the decoder all start from the same "+field+" count", "encoder {"+keysOfBool(ev)+"} decoder {"+keysOfBool(dv)+"}")
		}
	})

	c.Rule("GUARD", "pkg/encoding.FixedOffsetEncoder{max = maximum of the offsets}", func() { offsetEncoderMax(c) })

	// one bit per slot: the bit stream is positional (BytesWithoutTime is decoded against a slot range stored elsewhere)
	c.Rule("PASS", "pkg/encoding.TSDEncoder.AppendTime{one bit per call}", func() {
		f := c.Fn("pkg/encoding.TSDEncoder.AppendTime")
		wb := c.One(f, eng.AnyCallTo("pkg/bit.Writer.WriteBit"), "bitWriter.WriteBit(slot)")
		conds, _ := eng.GuardingConds(f, wb.Instr)
		for i, cd := range conds {
			onlyErr := eng.DependsOnField(cd, "pkg/encoding.TSDEncoder.err") &&
				!eng.DependsOn(cd, func(x ssa.Value) bool {
					pr, ok := x.(*ssa.Parameter)
					return ok && pr.Parent() == f && pr != f.Params[0]
				}) &&
				!eng.DependsOnField(cd, "pkg/encoding.TSDEncoder.count", "pkg/encoding.TSDEncoder.startTime")
			c.Check(onlyErr, fmt.Sprintf("bit-written-unless-poisoned[%d]", i), wb.Instr, f,
				"the only reason not to write the slot's bit is an earlier error: every slot, empty or not, leading or not, occupies one position of the stream",
				"the write is guarded by "+p.Desc(cd))
		}
		arg := eng.CallArgs(wb.Instr.(ssa.CallInstruction))[0]
		c.Check(eng.Unwrap(arg) == ssa.Value(f.Params[1]), "bit-is-the-argument", wb.Instr, f, "the bit written is the slot's mark", "writes "+p.Desc(arg))
		cnt := c.Some(f, eng.StoreField("pkg/encoding.TSDEncoder.count"), "e.count++")
		for i, st := range cnt {
			c.Check(eng.DominatedBy(f, st.Instr, []eng.Site{wb}, nil), fmt.Sprintf("count-follows-the-bit[%d]", i), st.Instr, f, "count advances only after a bit was written", "")
		}
		owner(c, "store to TSDEncoder.startTime", eng.StoreField("pkg/encoding.TSDEncoder.startTime"),
			[]string{"pkg/encoding.NewTSDEncoder", "pkg/encoding.TSDEncoder.RestWithStartTime"}, 2)
	})

	// a pooled decoder held by a reader goes back to the pool exactly once
	c.Rule("TYPESTATE", "pkg/encoding{a holder releases its pooled object in one method that no other method of it calls}", func() {
		byType := map[string]map[string]bool{}
		for _, fn := range p.FuncsWithPrefix("pkg/encoding.") {
			if fn.Signature.Recv() == nil || fn.Parent() != nil {
				continue
			}
			isRelease := eng.Any(eng.CallTo("pkg/encoding.ReleaseTSDDecoder", "pkg/encoding.ReleaseTSDEncoder"), func(p *eng.Prog, in ssa.Instruction) bool {
				cl, ok := in.(*ssa.Call)
				if !ok || cl.Common().StaticCallee() == nil || cl.Common().StaticCallee().Name() != "Put" || !strings.Contains(cl.Common().StaticCallee().String(), "sync.Pool") {
					return false
				}
				_, isGlobal := eng.Unwrap(cl.Common().Args[0]).(*ssa.Global)
				return isGlobal // decoderPool.Put(x) written in place
			})
			for _, s := range p.SitesDirect(fn, isRelease) {
				args := eng.CallArgs(s.Instr.(ssa.CallInstruction))
				arg := args[len(args)-1]
				if !eng.DependsOn(arg, func(x ssa.Value) bool { return x == ssa.Value(fn.Params[0]) }) {
					continue
				}
				k := p.FuncKey(fn)
				t := k[:strings.LastIndex(k, ".")]
				if byType[t] == nil {
					byType[t] = map[string]bool{}
				}
				byType[t][k] = true
			}
		}
		c.Check(len(byType) >= 1, "holders-found", nil, nil, "some type of pkg/encoding holds a pooled decoder / encoder in a field", fmt.Sprintf("%d", len(byType)))
		for t, rel := range byType {
			c.Check(len(rel) == 1, "one-releasing-method:"+t, nil, nil, "the held object is released by exactly one method", keysOfBool(rel))
			for k := range rel {
				r := c.Fn(k)
				for _, fn := range p.FuncsWithPrefix(t + ".") {
					if fn == r {
						continue
					}
					for _, s := range p.Sites(fn, func(_ *eng.Prog, in ssa.Instruction) bool {
						cl, ok := in.(ssa.CallInstruction)
						return ok && cl.Common().StaticCallee() == r
					}) {
						c.Check(false, "release-not-called-internally:"+p.FuncKey(fn), s.Instr, fn,
							"the releasing method is called by the owner of the reader only (its documented Close), never by another method of the reader: a second release puts one object into the pool twice and two later users share it", "calls "+k)
					}
				}
			}
		}
	})

	// an empty block is a legal block
	c.Rule("GUARD", "pkg/encoding.FixedOffsetDecoder.GetBlock{empty range accepted}", func() { emptyBlockAccepted(c) })
}

// emptySentinelIsPlusInf: the down-sampling target buffer is pre-filled with +Inf ("slot has no value"); the encoder and
// the aggregators test for exactly that sentinel. A test that also matches -Inf drops a real data point.
func emptySentinelIsPlusInf(c *eng.Ctx) {
	p := c.P
	signOf := func(v ssa.Value) (int64, bool) { return eng.ConstInt(v) }
	// producer
	prod := 0
	for _, fn := range p.AllFuncs {
		if eng.PkgOf(fn) != "aggregation" {
			continue
		}
		for _, s := range p.SitesDirect(fn, eng.CallTo("math.Inf")) {
			k, ok := signOf(s.Instr.(*ssa.Call).Common().Args[0])
			prod++
			c.Check(ok && k > 0, "producer:"+topFunc(c, fn), s.Instr, fn, "the empty-slot sentinel written by the aggregation package is +Inf", fmt.Sprintf("math.Inf(%d)", k))
		}
	}
	c.Check(prod > 0, "producer-found", nil, nil, "the aggregation package builds its sentinel with math.Inf", "")
	for _, fk := range []string{"pkg/encoding.TSDEncoder.EmitDownSamplingValue", "aggregation.fieldAggregator.AggregateBySlot", "aggregation.DownSamplingMultiSeriesInto"} {
		f := c.Fn(fk)
		n := 0
		for _, s := range p.Sites(f, eng.CallTo("math.IsInf")) {
			k, ok := signOf(s.Instr.(*ssa.Call).Common().Args[1])
			n++
			c.Check(ok && k > 0, fmt.Sprintf("consumer:%s[%d]", fk, n), s.Instr, f, "a slot is treated as empty only for +Inf (sign > 0): -Inf is a value like any other and is kept", fmt.Sprintf("math.IsInf(v, %d)", k))
		}
		for _, b := range eng.BlocksT(f) {
			for _, in := range b.Instrs {
				bo, ok := in.(*ssa.BinOp)
				if !ok || bo.Op != token.EQL && bo.Op != token.NEQ {
					continue
				}
				for _, side := range []ssa.Value{bo.X, bo.Y} {
					for _, cl := range p.CallsIn(side, "math.Inf") {
						k, ok := signOf(cl.Common().Args[0])
						n++
						c.Check(ok && k > 0, fmt.Sprintf("consumer:%s[%d]", fk, n), in, f, "a slot is treated as empty only for +Inf", fmt.Sprintf("compares with math.Inf(%d)", k))
					}
				}
			}
		}
		c.Check(n > 0, "consumer-tests-the-sentinel:"+fk, nil, f, fk+" recognises the empty-slot sentinel", "no math.IsInf / == math.Inf test found")
	}
}

// offsetEncoderMax: FixedOffsetEncoder.width() is derived from e.max; every offset is written with that width, so e.max
// must be the maximum over ALL offsets held — Add raises it per value, FromValues scans the whole list (the list is
// not required to be increasing).
func offsetEncoderMax(c *eng.Ctx) {
	p := c.P
	maxF := "pkg/encoding.FixedOffsetEncoder.max"
	w := c.Fn("pkg/encoding.FixedOffsetEncoder.width")
	c.Check(len(p.Sites(w, eng.LoadField(maxF))) > 0, "width-from-max", nil, w, "the entry width is derived from e.max", "")
	inLoop := func(b *ssa.BasicBlock) bool {
		seen := map[*ssa.BasicBlock]bool{}
		var st []*ssa.BasicBlock
		st = append(st, b.Succs...)
		for len(st) > 0 {
			x := st[len(st)-1]
			st = st[:len(st)-1]
			if x == b {
				return true
			}
			if seen[x] {
				continue
			}
			seen[x] = true
			st = append(st, x.Succs...)
		}
		return false
	}
	for _, fk := range []string{"pkg/encoding.FixedOffsetEncoder.Add", "pkg/encoding.FixedOffsetEncoder.FromValues"} {
		f := c.Fn(fk)
		facts := p.MustFacts(f)
		src := ssa.Value(f.Params[1])
		raised := 0
		for i, s := range p.Sites(f, eng.StoreField(maxF)) {
			st := s.Instr.(*ssa.Store)
			if _, isC := st.Val.(*ssa.Const); isC {
				continue // reset
			}
			if b, ok := eng.Unwrap(st.Val).(*ssa.Call); ok && len(p.CalleeKeys(b)) > 0 && (p.CalleeKeys(b)[0] == "builtin:max" || strings.HasSuffix(p.CalleeKeys(b)[0], "slices.Max")) {
				raised++
				continue
			}
			fromSrc := eng.DependsOn(st.Val, func(x ssa.Value) bool { return x == src })
			fs := facts.At(st)
			up := facts.Find(fs, "lt", eng.DescSuffix(".max"), func(_ string, v ssa.Value) bool { return eng.SameValue(v, st.Val) })
			okS := fromSrc && len(up) > 0
			if strings.HasSuffix(fk, "FromValues") {
				okS = okS && inLoop(st.Block())
			}
			if okS {
				raised++
			}
			c.Check(okS, fmt.Sprintf("%s:max-only-raised[%d]", fk, i), st, f,
				"e.max is raised to an offset that exceeds it — for a whole list, inside the scan over every element — so that it ends as the maximum (the entry width must fit the largest offset wherever it stands in the list)",
				"stores "+p.Desc(st.Val)+" with facts: "+strings.Join(facts.Render(fs), " ; "))
		}
		c.Check(raised > 0, fk+":max-maintained", nil, f, fk+" maintains e.max", "no raising store of e.max found")
	}
}

// emptyBlockAccepted: an entry of zero bytes is stored as two equal consecutive offsets; GetBlock must hand out the
// empty range, not report corruption: what is known at its successful return is start <= end, not start < end.
func emptyBlockAccepted(c *eng.Ctx) {
	p := c.P
	f := c.Fn("pkg/encoding.FixedOffsetDecoder.GetBlock")
	facts := p.MustFacts(f)
	gets := c.Some(f, eng.CallTo("pkg/encoding.FixedOffsetDecoder.Get"), "d.Get(index), d.Get(index+1)")
	c.Check(len(gets) >= 2, "both-offsets-read", nil, f, "start and end offset are read from the table", fmt.Sprintf("%d reads", len(gets)))
	n := 0
	// the function that slices: GetBlock itself or a helper it hands the offsets to
	hosts := []*ssa.Function{f}
	seenHost := map[*ssa.Function]bool{f: true}
	for _, b := range eng.BlocksT(f) {
		for _, in := range b.Instrs {
			if g := eng.TransparentCallee(in); g != nil && !seenHost[g] {
				seenHost[g] = true
				hosts = append(hosts, g)
			}
		}
	}
	type sret struct {
		g *ssa.Function
		r ssa.Instruction
	}
	var rets []sret
	for _, g := range hosts {
		for _, r := range eng.SuccessReturns(g) {
			rets = append(rets, sret{g, r})
		}
	}
	for i, sr := range rets {
		r := sr.r
		v := eng.RetVal(r, 0)
		sl, ok := eng.Unwrap(v).(*ssa.Slice)
		if !ok || sl.Low == nil || sl.High == nil {
			continue
		}
		n++
		facts := facts
		if sr.g != f {
			facts = p.MustFacts(sr.g)
		}
		fs := facts.At(r)
		strict := facts.Find(fs, "lt", func(_ string, x ssa.Value) bool { return eng.SameValue(x, sl.Low) }, func(_ string, y ssa.Value) bool { return eng.SameValue(y, sl.High) })
		c.Check(len(strict) == 0, fmt.Sprintf("empty-range-is-not-corruption[%d]", i), r, f,
			"GetBlock accepts start == end (a key stored with an empty value): the range test that guards the slice is end >= start, not end > start",
			"facts at the successful return: "+strings.Join(facts.Render(fs), " ; "))
		weak := facts.Find(fs, "le", func(_ string, x ssa.Value) bool { return eng.SameValue(x, sl.Low) }, func(_ string, y ssa.Value) bool { return eng.SameValue(y, sl.High) })
		c.Check(len(weak) > 0, fmt.Sprintf("range-checked[%d]", i), r, f, "the slice bounds are checked (start <= end) before slicing", "facts: "+strings.Join(facts.Render(fs), " ; "))
	}
	c.Check(n > 0, "returns-the-range", nil, f, "GetBlock returns dataBlock[start:end]", "")
}
