package props

import (
	"fmt"
	"go/types"
	"sort"
	"strings"

	"golang.org/x/tools/go/ssa"

	"lincheck/internal/eng"
)

const (
	rowT  = "series/metric.BrokerRow"
	bbrT  = "series/metric.BrokerBatchRows"
	cvtT  = "series/metric.BrokerRowProtoConverter"
	pmT   = "github.com/lindb/common/proto/gen/v1/linmetrics.Metric"
	dchT  = "replica.databaseChannel"
	flatP = "github.com/lindb/common/proto/gen/v1/flatMetricsV1"
)

func init() {
	register(eng.Property{
		ID:    "C16",
		Title: "Ingestion canonicalises rows and routes them deterministically",
		Explanation: "Decides structural conditions of canonicalisation and routing: a pooled broker row is completely re-initialised when it is re-filled (reuse history can not leak a dropped mark or old bytes); " +
			"the pooled batch and converter reset every buffer they accumulate into; in the protobuf converter a metric is validated before anything is built, tags are de-duplicated (sort, then compact) before ANY read " +
			"of the tag list — in particular before the tags hash and the serialised key/values — so identity depends only on the stored tags; every simple field type has a case; the shard index of every row of " +
			"a batch is the jump hash of its tags hash over the shard count; a row is marked out-of-range only on the two window-violation edges, and the window bounds reach that function in the role order its " +
			"signature declares (behind, ahead) from the option accessor.",
		NotDecided: "order-independence of the hash as a value property, agreement of the three wire formats, limits arithmetic, family time calculation.",
		MinObls:    35,
		Run:        runC16,
	})
}

func runC16(c *eng.Ctx) {
	histogramNumbersAreNumbers(c)
	refusedFlatRowIsConsumed(c)
	onlyStorableFieldTypesAccepted(c)
	lineTagsResolvedBeforeTheBuilder(c)
	namespaceFallbackIsReachable(c)
	shardIteratorBoundedByTheRowCount(c)
	measurementEndsAtTheFirstSeparator(c)
	p := c.P
	familyGroupContainsItsFirstRow(c)
	tagsHashIsStateless(c)
	readOnlyRowIsStateless(c)

	// ---- 1. RESET of pooled rows / batch / converter --------------------------------------------------------------------
	c.Rule("RESET", rowT, func() {
		resetRule(c, resetSpec{T: rowT, Entries: []string{rowT + ".FromBlock"},
			Exempt: map[string]string{"shardIdx": "recomputed for every row of the batch by NewShardGroupIterator before it is read (checked below)"}})
		// the batch hands its slots out only through TryAppend's callback, whose users fill the row via FromBlock/ConvertTo
		ta := c.Fn(bbrT + ".TryAppend")
		c.Check(len(p.Sites(ta, eng.CallTo("param:appendFunc"))) == 1, "slot-filled-by-callback", nil, ta, "a row slot is (re)filled only through TryAppend's callback", "")
	})
	c.Rule("RESET", bbrT, func() {
		resetRule(c, resetSpec{T: bbrT, Entries: []string{bbrT + ".reset"}, Ctors: []string{"series/metric.newBrokerBatchRows"},
			Exempt: map[string]string{
				"rows":               "slots beyond rowCount are never read (Len/Rows bound by rowCount) and every slot below it was re-filled by FromBlock (instance above)",
				"shardGroupIterator": "re-bound and Reset by NewShardGroupIterator before use",
			}})
		nb := c.Fn("series/metric.NewBrokerBatchRows")
		get := c.One(nb, invokeOn("brokerBatchRowsPool", "Get"), "pool.Get()")
		rs := c.Some(nb, eng.CallTo(bbrT+".reset"), "builder.reset()")
		for i, r := range eng.SuccessReturns(nb) {
			v := eng.RetVal(r, 0)
			if eng.DependsOn(v, func(x ssa.Value) bool { return x == get.Instr.(ssa.Value) }) {
				c.Check(eng.DominatedBy(nb, r, rs, nil), fmt.Sprintf("pooled-batch-reset[%d]", i), r, nb, "a batch taken from the pool is reset before it is handed out", "")
			}
		}
	})
	c.Rule("RESET", cvtT, func() {
		resetRule(c, resetSpec{T: cvtT, Entries: []string{cvtT + ".resetForNextConverter"}, Ctors: []string{"series/metric.NewProtoConverter"},
			Exempt: map[string]string{
				"hashBuf":      "reset at the start of hashOfName, its only user",
				"namespace":    "per-request enrichment, reset by Reset() when the converter returns to the pool (checked below)",
				"enrichedTags": "per-request enrichment, reset by Reset() when the converter returns to the pool (checked below)",
				"limits":       "configuration, set on acquisition",
			}})
		full := c.Fn(cvtT + ".Reset")
		for _, f := range []string{"namespace", "enrichedTags"} {
			ok, why := resetsOnAllPaths(p, full, cvtT, f, 0, map[*ssa.Function]bool{})
			c.Check(ok, "Reset:"+f, nil, full, "the pooled converter's Reset clears "+f, why)
		}
		c.Check(p.MustPass(full, eng.CallTo(cvtT+".resetForNextConverter"), 0), "Reset-includes-per-metric-reset", nil, full, "Reset includes the per-metric reset", "")
		m := c.Fn(cvtT + ".MarshalProtoMetricV1")
		rs := c.One(m, eng.CallTo(cvtT+".resetForNextConverter"), "resetForNextConverter()")
		// it is the first effect of a conversion
		for _, w := range writesIn(p, m, cvtT) {
			c.Check(eng.DominatedBy(m, w.in, []eng.Site{rs}, nil), "reset-first:"+w.field+"@"+p.InstrPos(w.in), w.in, m, "the per-metric reset precedes every use of the converter's buffers", "")
		}
	})

	c.Rule("RESET", "series/metric.BrokerRowFlatDecoder", func() {
		resetRule(c, resetSpec{T: "series/metric.BrokerRowFlatDecoder", Entries: []string{"series/metric.BrokerRowFlatDecoder.DecodeTo"},
			Ctors: []string{"series/metric.NewBrokerRowFlatDecoder"},
			Exempt: map[string]string{
				"size":    "set by HasNext() for every row before DecodeTo reads it",
				"reader":  "the request's input stream, set on acquisition (checked below) and consumed across rows by design",
				"readLen": "cumulative byte counter by design; zeroed when the decoder is released to the pool (checked below)",
			}})
		n := c.Fn("series/metric.NewBrokerRowFlatDecoder")
		rel := false
		for _, cl := range n.AnonFuncs {
			if len(c.P.Sites(cl, eng.StoreField("series/metric.BrokerRowFlatDecoder.readLen"))) > 0 && len(c.P.Sites(cl, eng.StoreField("series/metric.BrokerRowFlatDecoder.reader"))) > 0 {
				rel = true
			}
		}
		c.Check(rel, "release-clears-reader-and-counter", nil, n, "releasing the decoder to the pool clears its reader and read counter", "")
		for _, fld := range []string{"namespace", "reader", "enrichedTags", "limits"} {
			c.Check(c.P.MustPass(n, eng.StoreField("series/metric.BrokerRowFlatDecoder."+fld), 0), "acquire-sets:"+fld, nil, n, "acquiring a (possibly pooled) decoder sets "+fld+" for this request", "")
		}
	})

	// ---- 2. validate -> dedup -> everything else -----------------------------------------------------------------------------
	c.Rule("ORDER", cvtT+".MarshalProtoMetricV1{validate<dedup<tags}", func() {
		m := c.Fn(cvtT + ".MarshalProtoMetricV1")
		val := c.One(m, eng.CallTo(cvtT+".validateMetric"), "validateMetric(m)")
		dd := c.One(m, eng.CallTo(cvtT+".deDupTags"), "deDupTags(m)")
		ok, why := eng.OkDominates(m, val.Instr, dd.Instr)
		c.Check(ok, "validate(ok)<dedup", dd.Instr, m, "an invalid metric is rejected as a whole before anything is built", why)
		var reads []eng.Site
		for _, r := range p.Sites(m, eng.LoadField(pmT+".Tags")) {
			// the reads inside validateMetric / deDupTags themselves are those steps, not uses of the result
			if g := r.Fn; g == val.Instr.(*ssa.Call).Common().StaticCallee() || g == dd.Instr.(*ssa.Call).Common().StaticCallee() {
				continue
			}
			reads = append(reads, r)
		}
		if len(reads) < 3 {
			c.Undecided("expected >= 3 reads of m.Tags in MarshalProtoMetricV1, found %d", len(reads))
		}
		for i, r := range reads {
			c.Check(eng.DominatedBy(m, r.Instr, []eng.Site{dd}, nil), fmt.Sprintf("tags-read-after-dedup[%d]", i), r.Instr, m,
				"the tag list is read only after de-duplication (hash, count and serialised key/values all see the stored tags)", "m.Tags is read before deDupTags")
		}
		h := c.One(m, eng.CallTo("series/tag.XXHashOfKeyValues"), "tag.XXHashOfKeyValues(m.Tags)")
		ha := eng.CallArgs(h.Instr.(*ssa.Call))[0]
		c.Check(eng.DependsOnField(ha, pmT+".Tags"), "hash-of-stored-tags", h.Instr, m, "the tags hash is computed over the metric's (de-duplicated) tag list", "hash of "+p.Desc(ha))
		kh := c.One(m, eng.CallTo(flatP+".MetricAddKvsHash"), "MetricAddKvsHash")
		c.Check(eng.DerivesFromCall(eng.CallArgs(kh.Instr.(*ssa.Call))[1], h.Instr.(ssa.Value), 0), "stored-hash-is-that-hash", kh.Instr, m, "the stored KvsHash is that hash", "")
		// deDupTags: sort then compact, result stored back
		d := c.Fn(cvtT + ".deDupTags")
		so := c.One(d, eng.CallTo("sort.Sort", "sort.Stable", "sort.SliceStable", "slices.SortStableFunc"), "sort.Stable(kvs)")
		for i, s := range c.Some(d, eng.StoreField(pmT+".Tags"), "m.Tags = m.Tags[:slow+1]") {
			c.Check(eng.DominatedBy(d, s.Instr, []eng.Site{so}, nil), fmt.Sprintf("sort<compact[%d]", i), s.Instr, d, "tags are sorted before duplicates are compacted (a repeated key resolves to one value)", "")
		}
		c.Check(eng.DependsOnField(eng.CallArgs(so.Instr.(*ssa.Call))[0], pmT+".Tags"), "sorts-the-tags", so.Instr, d, "what is sorted is the metric's tag list", "")
		// which of two tags with one key survives is decided by their order AFTER the sort (the compaction keeps the last of equal
		// neighbours, so that an enriched tag - appended last - wins): the sort must keep equal keys in the order they were appended
		stable := !eng.CallTo("sort.Sort")(p, so.Instr)
		c.Check(stable, "duplicates-keep-their-order", so.Instr, d,
			"the sort that precedes the de-duplication is a STABLE one: sort.Sort is stable only by accident (insertion sort up to 12 elements); with more tags a repeated key keeps one value or the other depending on the order the client sent the tags in - the stored value, the tags hash, the series identity and the shard then depend on tag order",
			"tags are sorted with sort.Sort")
	})

	// ---- 2b. the name hash is the hash of the namespace and name that are stored ---------------------------------------------------
	c.Rule("PROV", cvtT+".MarshalProtoMetricV1{name hash of the stored namespace+name}", func() {
		m := c.Fn(cvtT + ".MarshalProtoMetricV1")
		stored := map[string]string{}
		for role, adder := range map[string]string{"namespace": "MetricAddNamespace", "name": "MetricAddName"} {
			ad := c.One(m, eng.CallTo(flatP+"."+adder), adder+"(builder, offset)")
			for _, cs := range p.CallsIn(eng.CallArgs(ad.Instr.(*ssa.Call))[1], "github.com/google/flatbuffers/go.Builder.CreateString") {
				stored[role] = p.Desc(eng.CallArgs(cs)[0])
			}
			if stored[role] == "" {
				c.Undecided("the %s written to the row is not a Builder.CreateString(...) value", role)
			}
		}
		nh := c.One(m, eng.CallTo(flatP+".MetricAddNameHash"), "MetricAddNameHash(builder, hash)")
		sum := p.CallsIn(eng.CallArgs(nh.Instr.(*ssa.Call))[1], "github.com/cespare/xxhash/v2.Sum64", "github.com/cespare/xxhash/v2.Sum64String")
		c.Check(len(sum) > 0, "hash-is-xxhash", nh.Instr, m, "the stored name hash is an xxhash sum", "stores "+p.Desc(eng.CallArgs(nh.Instr.(*ssa.Call))[1]))
		hashed := map[string]bool{}
		var at ssa.Instruction
		for _, w := range c.Some(m, invokeOn(".hashBuf", "WriteString", "Write", "WriteByte"), "hashBuf.Write…(part of the name)") {
			hashed[p.DescUp(eng.Unwrap(eng.CallArgs(w.Instr.(*ssa.Call))[0]))] = true
			at = w.Instr
		}
		var hs []string
		for k := range hashed {
			hs = append(hs, k)
		}
		sort.Strings(hs)
		okSet := len(hashed) == 2 && hashed[stored["namespace"]] && hashed[stored["name"]]
		c.Check(okSet, "hash-inputs-are-the-stored-strings", at, m,
			"the name hash (the identity under which the storage node files the row's metric) is computed from exactly the namespace and the name that are written into the row — after enrichment and sanitizing — so that it agrees with what every other reader of the row derives from those strings",
			fmt.Sprintf("hashes {%s}; stores namespace=%s name=%s", strings.Join(hs, ", "), stored["namespace"], stored["name"]))
	})

	// ---- 2b'. request-level (enriched) tags are bound AFTER the row's own tags in every format ------------------------------------------
	c.Rule("SYMMETRY", "series/metric{enriched tags follow the row's own tags in both formats}", func() {
		const enr = "series/metric.BrokerRowFlatDecoder.enrichedTags"
		f := c.Fn("series/metric.BrokerRowFlatDecoder.rebuild")
		var own, enriched []eng.Site
		for _, s := range c.Some(f, invokeOn("rowBuilder", "AddTag"), "rowBuilder.AddTag") {
			isEnr := false
			for _, a := range eng.CallArgs(s.Instr.(ssa.CallInstruction)) {
				if eng.DependsOnField(a, enr) {
					isEnr = true
				}
			}
			if isEnr {
				enriched = append(enriched, s)
			} else {
				own = append(own, s)
			}
		}
		c.Check(len(own) >= 1 && len(enriched) >= 1, "flat:both-kinds-added", nil, f, "the flat decoder adds the row's own tags and the enriched tags", fmt.Sprintf("own %d, enriched %d", len(own), len(enriched)))
		for i, e := range enriched {
			w, found := eng.Reaches(f, e.Instr, own, nil)
			detail := ""
			if found {
				detail = "an own tag is still added at " + p.InstrPos(w) + " after an enriched tag: for a repeated key the later binding wins, so this format would resolve it to the other value than the protobuf format does"
			}
			c.Check(!found, fmt.Sprintf("flat:enriched-last[%d]", i), e.Instr, f, "no own tag of the row is added after an enriched tag", detail)
		}
		// protobuf: the enriched tags are appended to the metric's own tag list
		m := c.Fn(cvtT + ".validateMetric")
		n := 0
		for _, st := range p.Sites(m, eng.StoreField(pmT+".Tags")) {
			v := eng.Unwrap(st.Instr.(*ssa.Store).Val)
			cl, ok := v.(*ssa.Call)
			if !ok {
				continue
			}
			if b, ok := cl.Common().Value.(*ssa.Builtin); !ok || b.Name() != "append" {
				continue
			}
			if !eng.DependsOnField(cl.Common().Args[1], cvtT+".enrichedTags") {
				continue
			}
			n++
			c.Check(eng.DependsOnField(cl.Common().Args[0], pmT+".Tags"), fmt.Sprintf("proto:enriched-appended[%d]", n), st.Instr, m,
				"the protobuf converter appends the enriched tags behind the metric's own tags", "first operand "+p.Desc(cl.Common().Args[0]))
		}
		c.Check(n >= 1, "proto:enrichment-found", nil, m, "the protobuf converter binds the enriched tags", "")
	})

	// ---- 2b''. the sharding base is the database's configured shard count -----------------------------------------------------------------
	c.Rule("PROV", dchT+".numOfShard{the configured shard count, never the number of channels opened so far}", func() {
		n := 0
		for _, fn := range p.FuncsWithPrefix("replica.") {
			for _, b := range fn.Blocks {
				for _, in := range b.Instrs {
					fa, method, call := eng.AtomicOp(in)
					if fa == nil || eng.FieldKeyOfAddr(fa) != dchT+".numOfShard" || method == "Load" {
						continue
					}
					n++
					args := eng.CallArgs(call)
					v := args[len(args)-1]
					fromParam := eng.DependsOn(v, func(x ssa.Value) bool { _, ok := x.(*ssa.Parameter); return ok })
					fromLen := eng.DependsOn(v, func(x ssa.Value) bool {
						cl, ok := x.(*ssa.Call)
						if !ok {
							return false
						}
						b, ok := cl.Common().Value.(*ssa.Builtin)
						return ok && (b.Name() == "len" || b.Name() == "cap")
					})
					c.Check(fromParam && !fromLen, fmt.Sprintf("base@%s[%d]", p.FuncKey(fn), n), in, fn,
						"rows are jump-hashed over the database's shard COUNT (handed in by the caller from the database config); the number of shard channels this broker has created so far is smaller while channels are still being created, and hashing over it sends rows to the wrong shard",
						"stores "+p.Desc(v))
				}
			}
		}
		c.Check(n >= 1, "base-set", nil, nil, "the sharding base is stored when the database channel is created", fmt.Sprintf("%d stores", n))
	})

	// ---- 2b3. the three wire formats apply the same per-metric limits (sibling cross-check) ------------------------------------------------
	c.Rule("SYMMETRY", "ingestion{every wire format applies every per-metric limit}", func() {
		formats := []struct {
			name string
			fns  []string
		}{
			{"protobuf", []string{cvtT + ".validateMetric", cvtT + ".MarshalProtoMetricV1"}},
			{"flat", []string{"series/metric.BrokerRowFlatDecoder.rebuild", "series/metric.BrokerRowFlatDecoder.DecodeTo"}},
			{"line-protocol", []string{"ingestion/influx.parseInfluxLine", "ingestion/influx.Parse"}},
		}
		limits := []string{"EnableMetricNameLengthCheck", "EnableTagsCheck", "EnableTagNameLengthCheck", "EnableTagValueLengthCheck", "EnableFieldsCheck", "EnableFieldNameLengthCheck"}
		for _, l := range limits {
			for _, f := range formats {
				found := false
				for _, k := range f.fns {
					if p.Contains(c.Fn(k), eng.AnyCallTo("models.Limits."+l), 2) {
						found = true
					}
				}
				c.Check(found, l+"@"+f.name, nil, c.Fn(f.fns[0]),
					"a metric is accepted or refused by the same limits whatever format it arrives in: the "+f.name+" path consults "+l+"()", f.name+" never calls Limits."+l)
			}
		}
		c.Observe("EnableNamespaceLengthCheck is consulted by the flat decoder only (protobuf and line protocol take the namespace from the request); a minority of one, not armed")
	})

	// ---- 2b4. the pooled family iterator takes nothing over from the batch's previous use --------------------------------------------------
	c.Rule("RESET", "series/metric.BrokerBatchShardFamilyIterator.reset{every argument-dependent field is set on every call}", func() {
		fiT := "series/metric.BrokerBatchShardFamilyIterator"
		f := c.Fn(fiT + ".reset")
		n := 0
		seen := map[string]bool{}
		for _, s := range p.SitesDirect(f, func(p *eng.Prog, in ssa.Instruction) bool {
			st, ok := in.(*ssa.Store)
			if !ok {
				return false
			}
			fa, ok := st.Addr.(*ssa.FieldAddr)
			return ok && strings.HasPrefix(eng.FieldKeyOfAddr(fa), fiT+".")
		}) {
			st := s.Instr.(*ssa.Store)
			k := eng.FieldKeyOfAddr(st.Addr.(*ssa.FieldAddr))
			fromArg := false
			for _, pr := range f.Params[1:] {
				pr := pr
				if eng.DependsOn(st.Val, func(x ssa.Value) bool { return x == ssa.Value(pr) }) {
					fromArg = true
				}
			}
			if !fromArg || seen[k] {
				continue
			}
			seen[k] = true
			n++
			c.Check(p.MustPass(f, eng.StoreField(k), 0), "set-on-every-call:"+k[strings.LastIndex(k, ".")+1:], s.Instr, f,
				"a field of the pooled iterator that is derived from reset's arguments (the rows, the database's write interval) is assigned on every call: the enclosing batch comes from a process-wide pool and serves databases with different intervals",
				"the assignment is conditional: a value of the previous use survives")
		}
		c.Check(n >= 2, "argument-fields-found", nil, f, "reset stores the rows and the interval calculator", fmt.Sprintf("%d", n))
	})
	// ---- 2b5. every family group of a shard is written ---------------------------------------------------------------------------------------
	c.Rule("PASS", dchT+".Write{every family group reaches its family channel}", func() {
		f := c.Fn(dchT + ".Write")
		for i, w := range c.Some(f, invokeOn("", "Write"), "familyChannel.Write(ctx, rows)") {
			host := w.Instr.Parent() // Write itself, or a helper the per-shard part was moved into
			everyIterationPasses(c, host, w, fmt.Sprintf("no-family-skipped[%d]", i),
				"every (shard, family) group handed out by the iterator is written: rows outside the window were already removed from the batch, a group is never dropped as a whole because of its first row")
		}
	})

	// ---- 2c. rows are grouped into families of the SMALLEST configured interval --------------------------------------------------
	c.Rule("PROV", "replica.newDatabaseChannel{write interval = smallest configured interval}", func() {
		f := c.Fn("replica.newDatabaseChannel")
		st := c.One(f, eng.StoreField(dchT+".interval"), "ch.interval = intervals[0].Interval")
		var from *ssa.IndexAddr
		eng.WalkExpr(st.Instr.(*ssa.Store).Val, func(x ssa.Value) bool {
			if ia, ok := x.(*ssa.IndexAddr); ok && from == nil {
				from = ia
			}
			return true
		})
		if from == nil {
			c.Undecided("ch.interval is not read from an element of an interval list: %s", p.Desc(st.Instr.(*ssa.Store).Val))
		}
		k, isC := eng.ConstInt(from.Index)
		c.Check(isC && k == 0, "first-element", st.Instr, f, "the write interval is the first element of the sorted interval list", "index "+p.Desc(from.Index))
		sorted := false
		why := "no sort.Sort / sort.Slice of " + p.Desc(from.X) + " before the read"
		for _, so := range p.Sites(f, eng.CallTo("sort.Sort", "sort.Stable", "sort.Slice", "sort.SliceStable", "slices.SortFunc")) {
			a := eng.Unwrap(so.Instr.(*ssa.Call).Common().Args[0])
			if mi, ok := a.(*ssa.MakeInterface); ok {
				a = eng.Unwrap(mi.X)
			}
			same := eng.SameValue(a, from.X) || p.Desc(a) == p.Desc(from.X)
			if !same {
				why = "what is sorted is " + p.Desc(a) + ", what is read is " + p.Desc(from.X)
				continue
			}
			if eng.DominatedBy(f, st.Instr, []eng.Site{so}, nil) {
				sorted = true
			}
		}
		c.Check(sorted, "sorted-list-is-the-list-read", st.Instr, f,
			"the list whose first element becomes the write interval is the list that was sorted (ascending) just before: the family of every written row is computed with this interval, and the storage side keeps its write families by the smallest interval",
			why)
	})

	// ---- 2d. every row of a batch is routed by its own tags; duplicates are compacted whenever there can be one ----------------------
	c.Rule("PASS", bbrT+".NewShardGroupIterator{every row hashed} / deDupTags{skipped only below two tags}", func() {
		f := c.Fn(bbrT + ".NewShardGroupIterator")
		st := c.One(f, eng.StoreField("series/metric.BrokerRow.shardIdx"), "rows[i].shardIdx = jump.Hash(kvsHash, numOfShards)")
		everyIterationPasses(c, f, st, "no-row-keeps-a-stale-shard-index",
			"the shard index of EVERY row of the batch is recomputed for this request (rows and their slots are pooled: a row that is skipped keeps the index an earlier request left there, possibly beyond the shard count)")
		d := c.Fn(cvtT + ".deDupTags")
		so := c.One(d, eng.CallTo("sort.Sort", "sort.Stable", "sort.SliceStable", "slices.SortStableFunc"), "sort.Stable(kvs)")
		facts := p.MustFacts(d)
		n := 0
		for _, b := range d.Blocks {
			r, ok := b.Instrs[len(b.Instrs)-1].(*ssa.Return)
			if !ok || b == d.Recover {
				continue
			}
			if eng.DominatedBy(d, r, []eng.Site{so}, nil) {
				continue
			}
			n++
			fs := facts.At(r)
			few := facts.Find(fs, "lt", func(dd string, _ ssa.Value) bool { return strings.Contains(dd, "len(") }, eng.DescIs("2"))
			few = append(few, facts.Find(fs, "le", func(dd string, _ ssa.Value) bool { return strings.Contains(dd, "len(") }, eng.DescIs("1"))...)
			c.Check(len(few) > 0, fmt.Sprintf("dedup-skipped-only-below-two-tags[%d]", n), r, d,
				"de-duplication (sort, then compaction of equal keys) is skipped only for fewer than two tags: a list that is already in key order can still hold a repeated key",
				"facts at the early return: "+strings.Join(facts.Render(fs), " ; "))
		}
	})

	// ---- 4. every simple field type has a case ---------------------------------------------------------------------------------
	c.Rule("EXHAUSTIVE", cvtT+".MarshalProtoMetricV1{SimpleFieldType}", func() {
		pk := p.ByPath["github.com/lindb/common/proto/gen/v1/linmetrics"]
		if pk == nil {
			c.Undecided("proto package not loaded")
		}
		var consts []string
		vals := map[string]int64{}
		for _, n := range pk.Types.Scope().Names() {
			if cn, ok := pk.Types.Scope().Lookup(n).(*types.Const); ok && strings.HasPrefix(n, "SimpleFieldType_") {
				consts = append(consts, n)
				v, _ := eng.ConstInt(ssa.NewConst(cn.Val(), cn.Type()))
				vals[n] = v
			}
		}
		if len(consts) < 5 {
			c.Undecided("SimpleFieldType constants not found")
		}
		m := c.Fn(cvtT + ".MarshalProtoMetricV1")
		cases := map[int64]bool{}
		for _, b := range eng.BlocksT(m) {
			for _, in := range b.Instrs {
				if bo, ok := in.(*ssa.BinOp); ok && bo.Op.String() == "==" && strings.Contains(bo.X.Type().String(), "SimpleFieldType") {
					if v, ok := eng.ConstInt(bo.Y); ok {
						cases[v] = true
					}
				}
			}
		}
		for _, n := range consts {
			if strings.HasSuffix(n, "UNSPECIFIED") {
				continue
			}
			c.Check(cases[vals[n]], "case:"+n, nil, m, "the converter has a case for simple field type "+n+" (otherwise the field is stored with the zero type)", "no comparison with "+n)
		}
		// validateMetric rejects the unspecified type
		v := c.Fn(cvtT + ".validateMetric")
		rej := false
		for _, b := range eng.BlocksT(v) {
			for _, in := range b.Instrs {
				if bo, ok := in.(*ssa.BinOp); ok && strings.Contains(bo.X.Type().String(), "SimpleFieldType") {
					rej = true
				}
			}
		}
		c.Check(rej, "unspecified-rejected", nil, v, "validateMetric examines the simple field type (the unspecified type is rejected)", "no test of SimpleFieldType in validateMetric")
	})

	// ---- 3. shard index ------------------------------------------------------------------------------------------------------------
	c.Rule("PROV", bbrT+".NewShardGroupIterator{shard=jump(kvsHash)}", func() {
		f := c.Fn(bbrT + ".NewShardGroupIterator")
		st := c.One(f, eng.StoreField(rowT+".shardIdx"), "rows[i].shardIdx = …")
		v, _ := storedValue(st.Instr)
		jh := p.CallsIn(v, "github.com/lithammer/go-jump-consistent-hash.Hash")
		if len(jh) == 0 {
			jh = p.CallsIn(v)
			var keep []*ssa.Call
			for _, cl := range jh {
				if strings.HasSuffix(strings.Join(p.CalleeKeys(cl), ""), "jump.Hash") {
					keep = append(keep, cl)
				}
			}
			jh = keep
		}
		if len(jh) != 1 {
			c.Check(false, "jump-hash", st.Instr, f, "the shard index is a jump hash", "stores "+p.Desc(v))
			return
		}
		a := jh[0].Common().Args
		c.Check(strings.Contains(p.Desc(a[0]), "KvsHash()"), "of-tags-hash", jh[0], f, "the hash input is the row's tags hash (identity), not the name hash or anything batch dependent", "input "+p.Desc(a[0]))
		c.Check(p.Desc(a[1]) == "numOfShards", "over-shard-count", jh[0], f, "the bucket count is the shard count", "buckets "+p.Desc(a[1]))
		// same row: the row hashed is the row stored into
		idxOf := func(x ssa.Value) ssa.Value {
			var idx ssa.Value
			eng.WalkExpr(x, func(y ssa.Value) bool {
				if ia, ok := y.(*ssa.IndexAddr); ok && idx == nil {
					idx = ia.Index
				}
				return true
			})
			return idx
		}
		c.Check(idxOf(a[0]) != nil && idxOf(a[0]) == idxOf(st.Instr.(*ssa.Store).Addr), "same-row", st.Instr, f, "the hash of row i is stored into row i", "")
		// loop covers all rows: bound is br.Len()
		conds, _ := eng.GuardingConds(f, st.Instr)
		okB := false
		for _, cd := range conds {
			if strings.Contains(p.Desc(cd), ".rowCount") || strings.Contains(p.Desc(cd), "Len()") {
				okB = true
			}
			// or the length of the live-row view handed out by Rows()
			if eng.DependsOn(cd, func(x ssa.Value) bool {
				cl, ok := x.(*ssa.Call)
				return ok && cl.Common().StaticCallee() != nil && p.FuncKey(cl.Common().StaticCallee()) == bbrT+".Rows"
			}) {
				okB = true
			}
		}
		c.Check(okB, "all-rows", st.Instr, f, "the loop runs over every row below Len()", "")
	})

	// ---- 5. write window ---------------------------------------------------------------------------------------------------------------
	c.Rule("GUARD", bbrT+".EvictOutOfTimeRange", func() {
		f := c.Fn(bbrT + ".EvictOutOfTimeRange")
		facts := p.MustFacts(f)
		st := c.One(f, eng.StoreField(rowT+".IsOutOfTimeRange"), "rows[idx].IsOutOfTimeRange = true")
		b := st.Instr.Block()
		if len(b.Preds) < 2 {
			c.Undecided("expected the mark to be reached from two window tests")
		}
		for i, pr := range b.Preds {
			ef := facts.EdgeFactsFor(pr, b)
			rendered := facts.Render(ef)
			tooOld := len(facts.Find(ef, "lt", eng.DescIs("0"), eng.DescIs("behind"))) > 0 &&
				len(facts.Find(ef, "lt", eng.DescHas("Timestamp()"), func(d string, _ ssa.Value) bool { return strings.Contains(d, "-behind)") })) > 0
			tooNew := len(facts.Find(ef, "lt", eng.DescIs("0"), eng.DescIs("ahead"))) > 0 &&
				len(facts.Find(ef, "lt", func(d string, _ ssa.Value) bool { return strings.Contains(d, "+ahead)") }, eng.DescHas("Timestamp()"))) > 0
			c.Check(tooOld || tooNew, fmt.Sprintf("marked-only-outside-window[%d]", i), st.Instr, f,
				"a row is marked out of range only when (behind>0 and ts < now-behind) or (ahead>0 and ts > now+ahead)", "edge facts: "+strings.Join(rendered, " ; "))
		}
		owner(c, "store to BrokerRow.IsOutOfTimeRange", eng.StoreField(rowT+".IsOutOfTimeRange"), []string{bbrT + ".EvictOutOfTimeRange", rowT + ".FromBlock"}, 2)
		// role binding of the window bounds through the call chain
		w := c.Fn(dchT + ".Write")
		call := c.One(w, eng.CallTo(bbrT+".EvictOutOfTimeRange"), "EvictOutOfTimeRange(behind, ahead)")
		a := eng.CallArgs(call.Instr.(*ssa.Call))
		for i, prm := range f.Params[1:] {
			role := eng.ParamName(prm) // behind, ahead
			other := map[string]string{"behind": "ahead", "ahead": "behind"}[role]
			c.Check(eng.DependsOnField(a[i], dchT+"."+role) && !eng.DependsOnField(a[i], dchT+"."+other), "call-site-role:"+role, call.Instr, w,
				"the argument passed for parameter `"+role+"` is the channel's "+role+" bound", "passes "+p.Desc(a[i]))
		}
		nc := c.Fn("replica.newDatabaseChannel")
		ga := c.One(nc, eng.AnyCallTo("pkg/option.DatabaseOption.GetAcceptWritableRange"), "GetAcceptWritableRange()")
		gf := c.Fn("pkg/option.DatabaseOption.GetAcceptWritableRange")
		res := gf.Signature.Results()
		for i := 0; i < res.Len(); i++ {
			role := res.At(i).Name()
			role = eng.ResultName(gf, i) // by position, whatever the result is called today
			for _, s := range p.Sites(nc, eng.StoreField(dchT+"."+role)) {
				v := s.Instr.(*ssa.Store).Val
				okR := eng.DependsOn(v, func(x ssa.Value) bool {
					e, ok := x.(*ssa.Extract)
					return ok && e.Tuple == ga.Instr.(ssa.Value) && e.Index == i
				})
				c.Check(okR, "option-role:"+role, s.Instr, nc, "the channel's "+role+" bound is the accessor's result named "+role, "stores "+p.Desc(v))
			}
			for j, r := range eng.SuccessReturns(gf) {
				rv := eng.RetVal(r, i)
				c.Check(strings.HasSuffix(p.Desc(rv), "."+role), fmt.Sprintf("accessor-role:%s[%d]", role, j), r, gf, "the accessor returns the option's "+role+" as the result named "+role, "returns "+p.Desc(rv))
			}
		}
	})

	// ---- 6. family grouping: a group is the rows inside the family range of the group's first row -----------------------------------
	rowsInsideFirstRowsFamilyRange(c)

	// ---- 7. line protocol: the shared row builder starts every line empty -----------------------------------------------------------
	// ---- 5b. a pooled batch has one releaser ----------------------------------------------------------------------------------------------
	// (channelManager.Write gives the batch back to the pool on every exit; a second Release - by the HTTP handler that parsed it,
	// say - puts the same object into the pool twice and two overlapping requests then fill, sort and route ONE batch: rows of one
	// request are lost, rows of the other are duplicated or written to the other request's database)
	c.Rule("OWNER", bbrT+".Release{one releaser}", func() {
		owner(c, "call of BrokerBatchRows.Release", eng.AnyCallTo(bbrT+".Release"), []string{"replica.channelManager.Write"}, 1)
		w := c.Fn("replica.channelManager.Write")
		rel := p.Sites(w, eng.AnyCallTo(bbrT+".Release"))
		for i, s := range rel {
			_, isDefer := s.Instr.(*ssa.Defer)
			c.Check(isDefer || len(rel) == 1, fmt.Sprintf("released-once[%d]", i), s.Instr, w, "the batch is released once, by a deferred call", "")
		}
	})

	// ---- 6a. the family range rows are grouped by ends where the next family starts ------------------------------------------------------
	// (a calculator whose family START is taken from the local calendar - time.Date(…, time.Local): a day, a month - must take the
	// END from the calendar too; "start + 24h - 1" is the end of that day only when the day has 24 hours. On a 25-hour day the
	// group's own range excludes the row that opened it and HasNextFamily ends the shard's iteration: the rest is dropped)
	familyEndLikeStart(c)

	// ---- 6b. a failed shard/family write of a batch is reported: the error the batch write returns is sticky -----------------------
	c.Rule("ERRFLOW", "replica.databaseChannel.Write{a failed family write is not forgotten}", func() {
		f := c.Fn("replica.databaseChannel.Write")
		ws := c.Some(f, invokeOn("", "Write"), "familyChannel.Write(ctx, rows)")
		carried, lost := lostLoopErrors(p, f)
		// the write's error must take part in the returned error at all
		for i, w := range ws {
			reach := false
			// followed through the results of the unexported helpers the write may sit in
			cur := w.Instr.(ssa.Value)
			for d := 0; d < 4 && !reach; d++ {
				g := cur.(ssa.Instruction).Parent()
				hit := false
				for _, b := range g.Blocks {
					for _, in := range b.Instrs {
						if r, ok := in.(*ssa.Return); ok && len(r.Results) == 1 && eng.DependsOn(r.Results[0], func(x ssa.Value) bool { return x == cur }) {
							hit = true
						}
					}
				}
				if !hit {
					break
				}
				if g == f {
					reach = true
					break
				}
				top := eng.TopOf(f, eng.Site{Instr: cur.(ssa.Instruction)})
				tv, isV := top.(ssa.Value)
				if top == nil || !isV || top.Parent() != f {
					break
				}
				cur = tv
			}
			c.Check(reach, fmt.Sprintf("write-error-returned[%d]", i), w.Instr, f, "the error of a family write reaches the error databaseChannel.Write returns", "the result is dropped")
		}
		c.Check(carried > 0, "accumulates", nil, f, "the batch write accumulates its error over the shard and family loops", "no loop-carried error")
		for i, l := range lost {
			c.Check(false, fmt.Sprintf("sticky[%d]", i), l.At, f, "a failure recorded for one shard / family is not replaced by the outcome of a later one", l.Why)
		}
		if len(lost) == 0 {
			c.Check(true, "sticky", nil, f, "a failure recorded for one shard / family is not replaced by the outcome of a later one", "")
		}
	})

	c.Rule("RESET", "ingestion/influx.Parse{row builder per line}", func() {
		f := c.Fn("ingestion/influx.Parse")
		hn := c.One(f, invokeOn("", "HasNext"), "cr.HasNext()")
		pl := c.One(f, eng.CallTo("ingestion/influx.parseInfluxLine"), "parseInfluxLine(rowBuilder, line, ...)")
		rb := eng.CallArgs(pl.Instr.(*ssa.Call))[0]
		var rs []eng.Site
		for _, s := range p.Sites(f, invokeOn("", "Reset")) {
			if eng.SameValue(eng.CallRecv(s.Instr.(*ssa.Call)), rb) {
				rs = append(rs, s)
			}
		}
		c.Check(len(rs) > 0, "builder-reset-exists", pl.Instr, f, "the row builder is reset inside the line loop", "no rowBuilder.Reset()")
		_, stale := eng.Reaches(f, hn.Instr, []eng.Site{pl}, rs)
		c.Check(!stale, "reset-before-every-line", pl.Instr, f,
			"on every path from the loop test to parseInfluxLine the builder was reset: tags / fields a rejected line already added can not leak into the next row", "parseInfluxLine is reachable from cr.HasNext() without rowBuilder.Reset()")
	})
}

func familyEndLikeStart(c *eng.Ctx) {
	p := c.P
	c.Rule("SYMMETRY", "pkg/timeutil{family end computed like family start}", func() {
		calendar := func(f *ssa.Function) bool {
			return len(p.Sites(f, eng.CallTo("time.Date"))) > 0 || len(p.Sites(f, eng.AnyCallTo("time.Time.AddDate"))) > 0
		}
		n := 0
		for _, t := range []string{"day", "month", "year"} {
			st := p.Func("pkg/timeutil." + t + ".CalcFamilyStartTime")
			en := p.Func("pkg/timeutil." + t + ".CalcFamilyEndTime")
			if st == nil || en == nil {
				continue
			}
			n++
			c.Check(calendar(st) == calendar(en), "start-and-end-agree:"+t, nil, en,
				"the "+t+" calculator computes the family end through the calendar exactly when it computes the family start through the calendar", fmt.Sprintf("start uses the calendar: %v, end: %v", calendar(st), calendar(en)))
		}
		if n < 3 {
			c.Undecided("unresolved anchor: expected the day, month and year calculators, found %d", n)
		}
	})
}

func rowsInsideFirstRowsFamilyRange(c *eng.Ctx) {
	p := c.P
	_ = p
	c.Rule("GUARD", "series/metric.BrokerBatchShardFamilyIterator{rows inside the first row's family range}", func() {
		fiT := "series/metric.BrokerBatchShardFamilyIterator"
		trOf := eng.CallTo(fiT + ".timeRangeOfTimestamp")
		contains := eng.AnyCallTo("pkg/timeutil.TimeRange.Contains")
		sameKey := fiT + ".isSameFamily"
		if p.Func(sameKey) == nil {
			sameKey = fiT + ".reset" // the scan written in place in its only caller
		}
		calcFT := invokeOn(".intervalCalc", "CalcFamilyTime")
		// famArg resolves a family-time value to the timestamp it is computed from: intervalCalc.CalcFamilyTime(ts), directly
		// or through unexported helpers (familyTimeOfTimestamp, a scan that hands the family time back as a result)
		var famArg func(v ssa.Value, d int) ssa.Value
		famArg = func(v ssa.Value, d int) ssa.Value {
			if d > 4 {
				return nil
			}
			idx := 0
			cv := v
			if e, ok := cv.(*ssa.Extract); ok {
				idx, cv = e.Index, e.Tuple
			}
			cl, ok := cv.(*ssa.Call)
			if !ok {
				return nil
			}
			if calcFT(p, cl) {
				return cl.Common().Args[0]
			}
			g := eng.TransparentCallee(cl)
			if g == nil {
				return nil
			}
			var out ssa.Value
			for _, b := range g.Blocks {
				for _, in := range b.Instrs {
					r, isRet := in.(*ssa.Return)
					if !isRet || idx >= len(r.Results) {
						continue
					}
					x := r.Results[idx]
					if _, isConst := x.(*ssa.Const); isConst {
						continue // the "no rows" exit
					}
					a := famArg(x, d+1)
					if a == nil {
						return nil
					}
					if pr, isP := a.(*ssa.Parameter); isP && pr.Parent() == g {
						for pi, gp := range g.Params {
							if gp == pr && pi < len(cl.Common().Args) {
								a = cl.Common().Args[pi]
							}
						}
					}
					if out != nil && !eng.SameValue(out, a) {
						return nil
					}
					out = a
				}
			}
			return out
		}
		for _, fk := range []string{sameKey, fiT + ".HasNextFamily"} {
			f := c.Fn(fk)
			tr := c.One(f, trOf, "timeRangeOfTimestamp(first)")
			a1 := eng.CallArgs(tr.Instr.(*ssa.Call))[0]
			// the store of the group's family time: in the scan, or in its caller when the scan hands the value back
			stFn := f
			cands := p.Sites(f, eng.StoreField(fiT+".groupFamilyTime"))
			if len(cands) == 0 && strings.HasSuffix(fk, ".isSameFamily") {
				stFn = c.Fn(fiT + ".reset")
				for _, s := range p.Sites(stFn, eng.StoreField(fiT+".groupFamilyTime")) {
					cv, _ := storedValue(s.Instr)
					if _, isConst := cv.(*ssa.Const); !isConst {
						cands = append(cands, s)
					}
				}
			}
			if len(cands) == 0 {
				c.Undecided("unresolved anchor: no itr.groupFamilyTime = ... in %s or its caller", fk)
				continue
			}
			var st eng.Site
			var a2 ssa.Value
			var v ssa.Value
			for _, cand := range cands {
				cv, _ := storedValue(cand.Instr)
				if _, isConst := cv.(*ssa.Const); isConst && st.Instr != nil {
					continue // a plain re-initialisation next to the computed store
				}
				if a := famArg(cv, 0); st.Instr == nil || a != nil {
					st, v = cand, cv
					if a != nil {
						a2 = a
					}
				}
			}
			c.Check(a2 != nil, fk+":group-family-time", st.Instr, stFn, "the group's family time is familyTimeOfTimestamp(first)", "stores "+p.Desc(v))
			if a2 == nil {
				continue
			}
			c.Check(eng.SameValue(a1, a2), fk+":range-and-family-time-of-one-timestamp", st.Instr, f, "the family time handed out and the range rows are tested against come from the same (first) timestamp", p.Desc(a1)+" vs "+p.Desc(a2))
			// the membership tests: in the scan itself or in an unexported helper that is handed the range
			var cs []eng.Site
			for _, s := range p.SitesT(f, contains) {
				cs = append(cs, s)
			}
			if len(cs) == 0 {
				c.Undecided("unresolved anchor: no timeRange.Contains(row timestamp) in %s", fk)
				continue
			}
			for i, cn := range cs {
				call := cn.Instr.(*ssa.Call)
				recv := eng.UpParamVia(f, cn, call.Common().Args[0])
				c.Check(eng.DependsOn(recv, func(x ssa.Value) bool { return x == tr.Instr.(ssa.Value) }), fmt.Sprintf("%s:tested-against-first-rows-range[%d]", fk, i), call, f,
					"membership is tested against the family range of the group's first row", "receiver "+p.Desc(recv))
				arg := call.Common().Args[1]
				c.Check(eng.DependsOn(arg, func(x ssa.Value) bool {
					cl, ok := x.(*ssa.Call)
					return ok && cl.Common().IsInvoke() && cl.Common().Method.Name() == "Timestamp" || ok && cl.Common().StaticCallee() != nil && baseName(cl.Common().StaticCallee().Name()) == "Timestamp"
				}), fmt.Sprintf("%s:tests-the-rows-timestamp[%d]", fk, i), call, f, "the value tested is a row's timestamp", "tests "+p.Desc(arg))
			}
			// acceptance only on the Contains edge
			cf := cs[0].Instr.Parent()
			te, fe := eng.BoolCheckEdges(cf, cs[0].Instr.(ssa.Value))
			c.Check(len(te) > 0 && len(fe) > 0, fk+":membership-branches", cs[0].Instr, f, "the membership test decides a branch", "")
			if fk == sameKey && strings.HasSuffix(fk, ".reset") {
				// in-place form: a row outside the range clears the sameFamily flag, and the rows are then sorted
				for i, e := range fe {
					blk := e.B.Succs[e.Succ]
					cleared := false
					for _, in := range blk.Instrs {
						if st, ok := in.(*ssa.Store); ok && eng.StoreField(fiT+".sameFamily")(p, in) {
							if k, isC := st.Val.(*ssa.Const); isC && k.Value != nil && k.Value.String() == "false" {
								cleared = true
							}
						}
					}
					_, sorted := eng.PathExists(eng.PathQuery{Fn: f, After: blk.Instrs[0], Target: func(in ssa.Instruction) bool {
						return eng.CallTo("sort.Sort", "sort.Stable")(p, in)
					}})
					c.Check(cleared && sorted, fmt.Sprintf("%s:outside-row-means-not-same[%d]", fk, i), blk.Instrs[0], f, "a row outside the first row's family range clears the same-family flag and the rows get sorted", "")
				}
			} else if strings.HasSuffix(fk, ".isSameFamily") {
				// "all rows in one family" is answered true only when no row failed the test: the false edge leads to `return false`
				bi := 0
				for ri := 0; ri < f.Signature.Results().Len(); ri++ {
					if bt, ok := f.Signature.Results().At(ri).Type().Underlying().(*types.Basic); ok && bt.Kind() == types.Bool {
						bi = ri
					}
				}
				for i, e := range fe {
					first := e.B.Succs[e.Succ].Instrs[0]
					_, canTrue := eng.PathExists(eng.PathQuery{Fn: cf, After: first, Target: func(in ssa.Instruction) bool {
						r, ok := in.(*ssa.Return)
						if !ok {
							return false
						}
						k, isC := eng.RetVal(r, bi).(*ssa.Const)
						return !isC || k.Value == nil || k.Value.String() != "false"
					}})
					r0, isRet := first.(*ssa.Return)
					okF := isRet && !canTrue
					if isRet {
						k, isC := eng.RetVal(r0, bi).(*ssa.Const)
						okF = isC && k.Value != nil && k.Value.String() == "false"
					}
					c.Check(okF, fmt.Sprintf("%s:outside-row-means-not-same[%d]", fk, i), first, f, "a row outside the first row's family range makes isSameFamily answer false", "")
				}
			} else {
				// the group grows by one row at exactly one place, and only on the true edge of the membership test: groupEnd++ in the
				// scan, or the counter of a helper whose result becomes groupEnd
				nInc := 0
				checkInc := func(i int, at ssa.Instruction) {
					ok := false
					for _, e := range te {
						if eng.DominatedByEdge(cf, at, e) {
							ok = true
						}
					}
					nInc++
					c.Check(ok, fmt.Sprintf("%s:extend-only-inside-range[%d]", fk, i), at, f, "the group is extended by a row only on the true edge of the membership test", "")
				}
				opens := p.Sites(f, eng.StoreField(fiT+".groupStart"))
				for i, s := range p.Sites(f, eng.StoreField(fiT+".groupEnd")) {
					sv, _ := storedValue(s.Instr)
					if _, k := eng.SplitConstAdd(sv); k == 1 && cf == f {
						// the row that OPENS the group is taken without a test (F59): an increment that follows the opening store and
						// that no membership test can reach
						if _, after := eng.Reaches(f, cs[0].Instr, []eng.Site{s}, nil); !after && eng.DominatedBy(f, s.Instr, opens, nil) {
							c.Check(true, fmt.Sprintf("%s:opening-row-taken[%d]", fk, i), s.Instr, f, "the row that opens the group is part of it", "")
							continue
						}
						checkInc(i, s.Instr)
						continue
					}
					// groupEnd = helper(...): the helper's result is a counter stepped by one
					cl, isCall := sv.(*ssa.Call)
					if !isCall || cf == f || eng.TransparentCallee(cl) != cf {
						continue // groupEnd = len(rows) on the same-family fast path
					}
					for _, b := range cf.Blocks {
						for _, in := range b.Instrs {
							bo, isBo := in.(*ssa.BinOp)
							if !isBo {
								continue
							}
							if _, k := eng.SplitConstAdd(bo); k != 1 {
								continue
							}
							feeds := false
							for _, r := range eng.SuccessReturns(cf) {
								if eng.DependsOn(eng.RetVal(r, 0), func(x ssa.Value) bool { return x == ssa.Value(bo) }) {
									feeds = true
								}
							}
							if feeds {
								checkInc(i, bo)
							}
						}
					}
				}
				c.Check(nInc == 1, fk+":one-extension-site", nil, f, "the group grows at exactly one place (groupEnd++)", fmt.Sprintf("%d", nInc))
			}
		}
		// the range is the family of the timestamp: [start(seg, family(ts, seg)), end(start)]
		tf := c.Fn(fiT + ".timeRangeOfTimestamp")
		seg := c.One(tf, invokeOn(".intervalCalc", "CalcSegmentTime"), "CalcSegmentTime(ts)")
		fam := c.One(tf, invokeOn(".intervalCalc", "CalcFamily"), "CalcFamily(ts, seg)")
		stt := c.One(tf, invokeOn(".intervalCalc", "CalcFamilyStartTime"), "CalcFamilyStartTime(seg, family)")
		end := c.One(tf, invokeOn(".intervalCalc", "CalcFamilyEndTime"), "CalcFamilyEndTime(start)")
		ts := ssa.Value(tf.Params[1])
		fa := eng.CallArgs(fam.Instr.(*ssa.Call))
		sa := eng.CallArgs(stt.Instr.(*ssa.Call))
		c.Check(eng.CallArgs(seg.Instr.(*ssa.Call))[0] == ts && fa[0] == ts && fa[1] == seg.Instr.(ssa.Value), "range:family-of-the-timestamp", fam.Instr, tf, "segment and family are computed from the timestamp", "")
		c.Check(sa[0] == seg.Instr.(ssa.Value) && sa[1] == fam.Instr.(ssa.Value), "range:start-of-that-family", stt.Instr, tf, "the start is the start of that family in that segment", "")
		c.Check(eng.CallArgs(end.Instr.(*ssa.Call))[0] == stt.Instr.(ssa.Value), "range:end-of-that-family", end.Instr, tf, "the end is the end of the family starting there", "")
		for i, r := range eng.SuccessReturns(tf) {
			rv := eng.RetVal(r, 0)
			c.Check(eng.DependsOn(rv, func(x ssa.Value) bool { return x == stt.Instr.(ssa.Value) }) && eng.DependsOn(rv, func(x ssa.Value) bool { return x == end.Instr.(ssa.Value) }),
				fmt.Sprintf("range:returns-start-end[%d]", i), r, tf, "the returned range is [start, end] of that family", "returns "+p.Desc(rv))
		}
		if ftf := p.Func(fiT + ".familyTimeOfTimestamp"); ftf != nil { // when written in place, famArg above has followed it to CalcFamilyTime(ts)
			cft := c.One(ftf, invokeOn(".intervalCalc", "CalcFamilyTime"), "CalcFamilyTime(ts)")
			c.Check(eng.CallArgs(cft.Instr.(*ssa.Call))[0] == ssa.Value(ftf.Params[1]), "family-time-of-the-timestamp", cft.Instr, ftf, "the family time is computed from the timestamp", "")
		}
		// NextFamily hands out exactly [groupStart, groupEnd) with the group's family time
		nf := c.Fn(fiT + ".NextFamily")
		for i, r := range eng.SuccessReturns(nf) {
			c.Check(eng.DependsOnField(eng.RetVal(r, 0), fiT+".groupFamilyTime") && eng.DependsOnField(eng.RetVal(r, 1), fiT+".groupStart") && eng.DependsOnField(eng.RetVal(r, 1), fiT+".groupEnd"),
				fmt.Sprintf("next-family-returns-the-group[%d]", i), r, nf, "NextFamily returns the group's family time with rows[groupStart:groupEnd]", "")
		}
	})
}
