package props

// Rules added after the eighth round of independently produced breaking changes (m13 / m14).  As in the earlier rounds none of
// them is keyed to the changed lines: each states a structural necessary condition that the change gave up.

import (
	"fmt"
	"go/ast"
	"go/constant"
	"go/token"
	"go/types"
	"strings"

	"golang.org/x/tools/go/ssa"

	"lincheck/internal/eng"
)

// leafSources: the values v can be, through conversions, phis, local cells read back and the results of transparent helpers.
func leafSources(v ssa.Value) []ssa.Value {
	var out []ssa.Value
	seen := map[ssa.Value]bool{}
	var rec func(v ssa.Value, d int)
	rec = func(v ssa.Value, d int) {
		v = eng.Unwrap(v)
		if v == nil || seen[v] || d > 10 {
			return
		}
		seen[v] = true
		switch x := v.(type) {
		case *ssa.Phi:
			for _, e := range x.Edges {
				rec(e, d+1)
			}
			return
		case *ssa.Extract:
			if cl, ok := x.Tuple.(*ssa.Call); ok {
				if g := eng.TransparentCallee(cl); g != nil {
					for _, b := range g.Blocks {
						for _, in := range b.Instrs {
							if r, ok := in.(*ssa.Return); ok && x.Index < len(r.Results) {
								rec(r.Results[x.Index], d+1)
							}
						}
					}
					return
				}
			}
		case *ssa.Call:
			if g := eng.TransparentCallee(x); g != nil && g.Signature.Results().Len() == 1 {
				for _, b := range g.Blocks {
					for _, in := range b.Instrs {
						if r, ok := in.(*ssa.Return); ok && len(r.Results) == 1 {
							rec(r.Results[0], d+1)
						}
					}
				}
				return
			}
		case *ssa.UnOp:
			if x.Op == token.MUL {
				if al, ok := x.X.(*ssa.Alloc); ok {
					n := 0
					for _, r := range *al.Referrers() {
						if st, ok := r.(*ssa.Store); ok && st.Addr == ssa.Value(al) {
							n++
							rec(st.Val, d+1)
						}
					}
					if n > 0 {
						return
					}
				}
			}
		}
		out = append(out, v)
	}
	rec(v, 0)
	return out
}

func calleeName(v ssa.Value) string {
	cl, ok := v.(*ssa.Call)
	if !ok {
		return ""
	}
	if f := cl.Common().StaticCallee(); f != nil {
		return baseName(f.Name())
	}
	if cl.Common().IsInvoke() {
		return cl.Common().Method.Name()
	}
	return ""
}

// ---- C01-m14: what a commit logs about the allocator is re-installed by recovery -----------------------------------------------------
func replayReinstallsStoreLogs(c *eng.Ctx) {
	p := c.P
	c.Rule("PASS", vsT+".recover{store-level records of replayed commits are applied to the version set}", func() {
		rec := c.Fn(vsT + ".recover")
		ds := p.DeepSites(rec, invokeOn("", "applyVersionSet"), 4, true)
		c.Check(len(ds) > 0, "replay-reaches-applyVersionSet", nil, rec,
			"every commit appends a next-file-number record (a StoreLog) to its edit log; recovery replays those edit logs and must hand each StoreLog to applyVersionSet, otherwise the file-number allocator restarts from the head-of-manifest snapshot and hands out numbers of tables that exist", "no call of StoreLog.applyVersionSet is reachable from recover")
		ap := c.Fn("kv/version.editLog.apply")
		sites := p.Sites(ap, invokeOn("", "applyVersionSet"))
		c.Check(len(sites) >= 1, "apply-forwards-store-logs", nil, ap, "editLog.apply - the one function both a live commit and the replay run - forwards store-level records", "")
		for i, s := range sites {
			conds, _ := eng.GuardingConds(ap, s.Instr)
			only := true
			for _, cd := range conds {
				isTA := false
				eng.WalkExpr(cd, func(x ssa.Value) bool {
					if ex, ok := x.(*ssa.Extract); ok {
						if _, ok := ex.Tuple.(*ssa.TypeAssert); ok {
							isTA = true
						}
					}
					if _, ok := x.(*ssa.TypeAssert); ok {
						isTA = true
					}
					return !isTA
				})
				// the loop condition of the range over the logs is not a guard of one record
				if !isTA && !isLoopCond(ap, cd) {
					only = false
				}
			}
			c.Check(only, fmt.Sprintf("forwarded-whenever-it-is-a-store-log[%d]", i), s.Instr, ap, "a record is forwarded on the sole condition that it is a StoreLog", "")
		}
	})
}

// isLoopCond: cd is the exit test of a loop of fn (it depends on a loop-carried induction value or a range Next).
func isLoopCond(fn *ssa.Function, cd ssa.Value) bool {
	hit := false
	eng.WalkExpr(cd, func(x ssa.Value) bool {
		switch y := x.(type) {
		case *ssa.Phi:
			for _, e := range y.Edges {
				if eng.DependsOn(e, func(z ssa.Value) bool { return z == ssa.Value(y) }) {
					hit = true
				}
			}
		case *ssa.Next:
			hit = true
		}
		return !hit
	})
	return hit
}

// ---- C03-m13 / C04-m14: a compaction output keeps its claim until the commit that installs it -----------------------------------------
func compactionOutputClaimedUntilInstalled(c *eng.Ctx) {
	c.Rule("ORDER", "kv.compactJob{an output file keeps its pending-output claim until the commit that references it}", func() {
		m := c.Fn(cjT + ".mergeCompaction")
		neverBeforeDeep(c, m, eng.AnyCallTo("kv.Family.removePendingOutput", famT+".removePendingOutput"), eng.AnyCallTo("kv.Family.commitEditLog", famT+".commitEditLog"), "removePendingOutput", "commitEditLog", 3)
	})
}

// ---- C06-m14: a group that is on disk takes part in the minimum, or the open fails ---------------------------------------------------
func everyPersistedGroupLoaded(c *eng.Ctx) {
	p := c.P
	c.Rule("ERRFLOW", "pkg/queue.fanOutQueue.initConsumerGroups{a persisted group that cannot be loaded fails the open}", func() {
		f := c.Fn("pkg/queue.fanOutQueue.initConsumerGroups")
		ld := c.One(f, eng.AnyCallTo("var:pkg/queue.newConsumerGroupFunc", "pkg/queue.NewConsumerGroup"), "newConsumerGroupFunc(dir, name, fq)")
		errorsReturned(c, f, ld, "load-error-fails-the-open")
		reg := p.Sites(f, eng.MapUpdateOf("pkg/queue.fanOutQueue.consumerGroups"))
		c.Check(len(reg) == 1, "registers-the-group", nil, f, "a loaded group is registered in the group map", fmt.Sprintf("%d map updates", len(reg)))
		if len(reg) == 1 {
			nilE, _ := eng.ErrCheckEdges(f, ld.Instr.(ssa.Value))
			at := ld.Instr
			if at.Parent() != f { // the load sits in a helper (construct + register): judged at the helper's call in the loop
				if t := eng.TopOf(f, ld); t != nil {
					at = t
				}
			}
			hdr := innermostLoop(f, at.Block())
			if hdr == nil {
				c.Undecided("unrecognised shape: groups are not loaded in a loop")
			}
			// on the success edge the next iteration is reached only through the registration
			skip := false
			for _, e := range nilE {
				first := e.B.Succs[e.Succ].Instrs[0]
				if inSites(first, reg) {
					continue
				}
				if _, found := eng.PathExists(eng.PathQuery{Fn: f, After: first,
					Target:  func(x ssa.Instruction) bool { return x == hdr.Instrs[0] },
					Blocked: func(x ssa.Instruction) bool { return inSites(x, reg) }}); found {
					skip = true
				}
			}
			c.Check(len(nilE) > 0 && !skip, "every-loaded-group-registered", ld.Instr, f, "every group that was loaded enters the map Sync takes its minimum over: a group left out is overtaken by the queue-wide acknowledgement and by GC", "")
		}
	})
}

// ---- C07-m13: a metric that is being written stays active ------------------------------------------------------------------------------
func writtenMetricStaysActive(c *eng.Ctx) {
	p := c.P
	c.Rule("PASS", "tsdb/memdb.metricStore.GenField{every write refreshes the access time the metadata GC reads}", func() {
		f := c.Fn("tsdb/memdb.metricStore.GenField")
		st := p.Sites(f, eng.StoreField("tsdb/memdb.metricStore.accessTime"))
		_, skip := eng.PathExists(eng.PathQuery{Fn: f,
			Target:  func(x ssa.Instruction) bool { _, ok := x.(*ssa.Return); return ok && x.Parent() == f },
			Blocked: func(x ssa.Instruction) bool { return inSites(x, st) }})
		c.Check(len(st) > 0 && !skip, "refreshed-on-every-path", nil, f,
			"GenField is called for every field of every written row; it refreshes accessTime on every path, also when the field already exists: the GC after a metadata flush drops a store that looks idle, the family flush then skips the metric but commits and acknowledges its sequences",
			"a return of GenField is reachable without a store to accessTime")
		ia := c.Fn("tsdb/memdb.metricStore.IsActive")
		c.Check(len(p.Sites(ia, eng.LoadField("tsdb/memdb.metricStore.accessTime"))) > 0, "gc-reads-it", nil, ia, "IsActive decides on that access time", "")
	})
}

// ---- C07-m14: at shutdown the older memory database is committed (and acknowledged) first -----------------------------------------------
func closeFlushesOldestFirst(c *eng.Ctx) {
	p := c.P
	c.Rule("ORDER", dfT+".Close{the frozen memory database is flushed before the writable one}", func() {
		f := c.Fn(dfT + ".Close")
		var imm, mut []eng.Site
		for _, s := range p.Sites(f, eng.CallTo(dfT+".flushMemoryDatabase")) {
			a := eng.CallArgs(s.Instr.(*ssa.Call))
			db := a[len(a)-1]
			isI, isM := false, false
			for _, src := range leafSources(db) {
				if eng.DependsOnField(src, "tsdb.dataFamily.immutableMemDB") {
					isI = true
				}
				if eng.DependsOnField(src, "tsdb.dataFamily.mutableMemDB") {
					isM = true
				}
				// an element of a list built elsewhere: it can be either
				if u, ok := src.(*ssa.UnOp); ok && u.Op == token.MUL {
					if _, ok := u.X.(*ssa.FieldAddr); ok && !isI && !isM {
						if fa := u.X.(*ssa.FieldAddr); !strings.HasPrefix(eng.FieldKeyOfAddr(fa), "tsdb.dataFamily.") {
							isI, isM = true, true
						}
					}
				}
			}
			if isI {
				imm = append(imm, s)
			}
			if isM {
				mut = append(mut, s)
			}
		}
		c.Check(len(imm) > 0 && len(mut) > 0, "both-flushed", nil, f, "Close flushes the frozen and the writable memory database", fmt.Sprintf("%d / %d flush sites", len(imm), len(mut)))
		bad := false
		for _, m := range mut {
			if _, late := eng.Reaches(f, m.Instr, imm, nil); late {
				bad = true
			}
		}
		c.Check(!bad, "oldest-first", nil, f,
			"no flush of the frozen (older) memory database is reachable after a flush of the writable one: each flush commits and acknowledges its own sequences, and the stored sequence must not move back below what was acknowledged; a crash between the two would leave the older entries acknowledged and in no table",
			"a flush of immutableMemDB is reachable after a flush of mutableMemDB")
	})
}

// ---- C10-m14: a per-tag-key entry of the forward index is never recycled -------------------------------------------------------------
func forwardEntryIsFresh(c *eng.Ctx) {
	p := c.P
	c.Rule("PROV", "index.forwardIndex.put{a new per-tag-key entry is a new map}", func() {
		f := c.Fn("index.forwardIndex.put")
		n := 0
		for _, s := range p.Sites(f, invokeOn(".mutable", "Put")) {
			a := eng.CallArgs(s.Instr.(*ssa.Call))
			if len(a) != 2 {
				continue
			}
			n++
			fresh := true
			var desc []string
			for _, src := range leafSources(a[1]) {
				desc = append(desc, p.Desc(src))
				if calleeName(src) != "NewIntMap" {
					fresh = false
				}
			}
			c.Check(fresh, fmt.Sprintf("entry-is-new[%d]", n), s.Instr, f,
				"the entry registered for a tag key is created for it (imap.NewIntMap): grouping scanners and readers keep pointers to the entries of the frozen store beyond the flush, an entry that is reset and handed to another tag key changes under them",
				"registered entry comes from "+strings.Join(desc, " | "))
		}
		c.Check(n >= 1, "registration-found", nil, f, "put registers new entries", "")
	})
}

// ---- C11-m13: the memory index is scanned under its lock ----------------------------------------------------------------------------
func memoryIndexScannedUnderLock(c *eng.Ctx) {
	c.Rule("ATOMIC", "tsdb/memdb.timeSeriesIndex.Load{look-up of the container and the scan over it in one read hold}", func() {
		f := c.Fn("tsdb/memdb.timeSeriesIndex.Load")
		it := c.One(f, invokeOn("", "IterateLowSeriesIDs"), "ctx.IterateLowSeriesIDs(lowContainer, …)")
		heldAt(c, f, it.Instr, "tsdb/memdb.timeSeriesIndex.lock", false, "scan-under-the-read-lock")
		ks := c.Some(f, invokeOn("", "GetContainerAtIndex", "Values"), "idx.ids.Keys().GetContainerAtIndex / idx.ids.Values()")
		for i, k := range ks {
			heldAt(c, f, k.Instr, "tsdb/memdb.timeSeriesIndex.lock", false, fmt.Sprintf("views-taken-under-the-lock[%d]", i))
			same, why := c.P.Locks(f, nil).SameHold(k.Instr, it.Instr, "tsdb/memdb.timeSeriesIndex.lock", false)
			c.Check(same, fmt.Sprintf("same-hold-as-the-scan[%d]", i), k.Instr, f,
				"the container and the id slice are live views of the index that IndexTimeSeries shifts in place; they are walked in the hold in which they were taken", why)
		}
	})
}

// ---- C11-m14: a series owns its compress buffer ----------------------------------------------------------------------------------------
func compressBufferIsOwned(c *eng.Ctx) {
	p := c.P
	c.Rule("PROV", "tsdb/memdb.compact{the stored compress buffer is a copy of the encoder's bytes}", func() {
		f := c.Fn("tsdb/memdb.compact")
		n := 0
		for _, s := range p.Sites(f, invokeOn("", "storeFieldComressBuffer")) {
			a := eng.CallArgs(s.Instr.(*ssa.Call))
			n++
			copied := false
			for _, src := range leafSources(a[len(a)-1]) {
				switch calleeName(src) {
				case "MustCopy":
					copied = true
				}
				if cl, ok := src.(*ssa.Call); ok {
					if b, ok := cl.Common().Value.(*ssa.Builtin); ok && b.Name() == "append" {
						copied = true
					}
				}
			}
			direct := false
			for _, src := range leafSources(a[len(a)-1]) {
				if ex, ok := src.(*ssa.Extract); ok && calleeName(ex.Tuple) == "merge" {
					direct = true
				}
			}
			c.Check(copied && !direct, fmt.Sprintf("stored-buffer-is-a-copy[%d]", n), s.Instr, f,
				"merge() returns the internal buffer of a pooled TSD encoder that is released before the result is stored; what a series keeps as its compress buffer is a copy", "stores "+p.Desc(a[len(a)-1]))
		}
		c.Check(n >= 1, "store-found", nil, f, "compact stores the new compress buffer", "")
	})
}

// ---- C12-m13: a leaf ships every group it has ------------------------------------------------------------------------------------------
func leafShipsEveryGroup(c *eng.Ctx) {
	c.Rule("UNION", "query/context.LeafReduceContext.makeTimeSeriesList{every group of the leaf is shipped}", func() {
		f := c.Fn("query/context.LeafReduceContext.makeTimeSeriesList")
		rs := c.One(f, invokeOn("", "ResultSet"), "ctx.reduceAgg.ResultSet()")
		_ = rs
		visitsEveryElement(c, f, "no-group-left-out", "the answer of one leaf holds a PARTIAL aggregate of a group; the root can only combine what every leaf ships, so the loop over the leaf's groups (and over the series / fields of a group) is never left early")
	})
}

// ---- C14-m13: the packed width covers every delta ----------------------------------------------------------------------------------------
func deltaWidthCoversEveryDelta(c *eng.Ctx) {
	p := c.P
	c.Rule("GUARD", "pkg/encoding.DeltaBitPackingEncoder{the bit width is derived from every delta}", func() {
		by := c.Fn("pkg/encoding.DeltaBitPackingEncoder.Bytes")
		wb := c.Some(by, invokeOn("", "WriteBits"), "p.bw.WriteBits(delta, width)")
		width := eng.CallArgs(wb[0].Instr.(*ssa.Call))[1]
		// (A) the width is computed by scanning the deltas
		scans := eng.DependsOn(width, func(x ssa.Value) bool {
			u, ok := x.(*ssa.UnOp)
			if !ok || u.Op != token.MUL {
				return false
			}
			ia, ok := u.X.(*ssa.IndexAddr)
			return ok && eng.DependsOnField(ia.X, "pkg/encoding.DeltaBitPackingEncoder.deltas")
		})
		if scans {
			c.Check(true, "width-from-a-scan-of-the-deltas", wb[0].Instr, by, "the width is the width of the largest (delta - minDelta) found by scanning the deltas", "")
			return
		}
		// (B) the width comes from running extremes kept by Add: each extreme is updated on its own comparison only
		tracked := map[string]bool{}
		eng.WalkExpr(width, func(x ssa.Value) bool {
			if u, ok := x.(*ssa.UnOp); ok && u.Op == token.MUL {
				if fa, ok := u.X.(*ssa.FieldAddr); ok && strings.HasPrefix(eng.FieldKeyOfAddr(fa), "pkg/encoding.DeltaBitPackingEncoder.") {
					tracked[eng.FieldKeyOfAddr(fa)] = true
				}
			}
			return true
		})
		if len(tracked) == 0 {
			c.Check(false, "width-source", wb[0].Instr, by, "the width derives from the deltas (a scan) or from extremes the encoder keeps", "width = "+p.Desc(width))
			return
		}
		add := c.Fn("pkg/encoding.DeltaBitPackingEncoder.Add")
		for fk := range tracked {
			for i, st := range p.Sites(add, eng.StoreField(fk)) {
				conds, _ := eng.GuardingConds(add, st.Instr)
				foreign := ""
				for _, cd := range conds {
					for other := range tracked {
						if other != fk && eng.DependsOnField(cd, other) && !eng.DependsOnField(cd, fk) {
							foreign = other
						}
					}
				}
				c.Check(foreign == "", fmt.Sprintf("extreme-updated-independently:%s[%d]", fk[strings.LastIndex(fk, ".")+1:], i), st.Instr, add,
					"a running minimum and a running maximum of one stream are updated by independent tests: the first delta is both, and `else if` leaves the maximum at its sentinel whenever a delta is a new minimum",
					"the update of "+fk+" is reached only on a branch decided by "+foreign)
			}
		}
	})
}

// ---- C14-m14: an offset is decoded from its own bytes -------------------------------------------------------------------------------------
func fixedOffsetReadsItsOwnBytes(c *eng.Ctx) {
	p := c.P
	c.Rule("PROV", "pkg/encoding.FixedOffsetDecoder.Get{an entry is decoded from its own width bytes}", func() {
		f := c.Fn("pkg/encoding.FixedOffsetDecoder.Get")
		n := 0
		for _, s := range p.Sites(f, eng.AnyCallTo("encoding/binary.littleEndian.Uint32", "encoding/binary.littleEndian.Uint16", "encoding/binary.littleEndian.Uint64", "encoding/binary.ByteOrder.Uint32")) {
			n++
			cl := s.Instr.(*ssa.Call)
			a := eng.CallArgs(cl)
			inPlace := eng.DependsOnField(a[len(a)-1], "pkg/encoding.FixedOffsetDecoder.offsetsBlock")
			if !inPlace {
				c.Check(true, fmt.Sprintf("decoded-from-a-zeroed-scratch[%d]", n), cl, f, "the entry's bytes are copied into a zeroed scratch and decoded from there", "")
				continue
			}
			// decoded in place: the bytes of the following entries must be masked off with 2^(8*width)-1
			okMask := false
			det := "the value read in place over the following entries is not masked"
			for _, r := range *cl.Referrers() {
				bo, ok := r.(*ssa.BinOp)
				if !ok || bo.Op != token.AND {
					continue
				}
				other := bo.X
				if eng.Unwrap(other) == ssa.Value(cl) {
					other = bo.Y
				}
				u, ok := eng.Unwrap(other).(*ssa.UnOp)
				if !ok || u.Op != token.MUL {
					continue
				}
				ia, ok := u.X.(*ssa.IndexAddr)
				if !ok || !eng.DependsOnField(ia.Index, "pkg/encoding.FixedOffsetDecoder.width") {
					continue
				}
				g, ok := ia.X.(*ssa.Global)
				if !ok {
					continue
				}
				vals, found := globalArrayConsts(p, g)
				if !found {
					det = "mask table " + g.Name() + " is not a constant array literal"
					continue
				}
				okMask = len(vals) >= 5
				for w := 1; w <= 4 && okMask; w++ {
					want := uint64(1)<<(8*uint(w)) - 1
					if vals[w] != want {
						okMask = false
						det = fmt.Sprintf("mask of width %d is %#x, the width covers %#x", w, vals[w], want)
					}
				}
			}
			c.Check(okMask, fmt.Sprintf("in-place-read-masked-to-the-width[%d]", n), cl, f,
				"an entry decoded in place is cut to its own bytes with the mask 2^(8*width)-1 for every width: a narrower mask loses the high bits of the offsets of that width, a missing one mixes in the next entry", det)
		}
		c.Check(n >= 1, "decode-found", nil, f, "Get decodes a little-endian integer", "")
	})
}

// globalArrayConsts: the integer constants of the array / slice literal a package-level variable is initialised with.
func globalArrayConsts(p *eng.Prog, g *ssa.Global) ([]uint64, bool) {
	pk := p.Package(eng.ShortPkg(g.Pkg.Pkg.Path()))
	if pk == nil {
		return nil, false
	}
	for _, file := range pk.Syntax {
		for _, d := range file.Decls {
			gd, ok := d.(*ast.GenDecl)
			if !ok || gd.Tok != token.VAR {
				continue
			}
			for _, sp := range gd.Specs {
				vs, ok := sp.(*ast.ValueSpec)
				if !ok {
					continue
				}
				for i, nm := range vs.Names {
					if nm.Name != g.Name() || i >= len(vs.Values) {
						continue
					}
					cl, ok := vs.Values[i].(*ast.CompositeLit)
					if !ok {
						return nil, false
					}
					var out []uint64
					for _, e := range cl.Elts {
						tv, ok := pk.TypesInfo.Types[e]
						if !ok || tv.Value == nil || tv.Value.Kind() != constant.Int {
							return nil, false
						}
						u, ok := constant.Uint64Val(tv.Value)
						if !ok {
							return nil, false
						}
						out = append(out, u)
					}
					return out, true
				}
			}
		}
	}
	return nil, false
}

// ---- C15-m13: every scan of a table has its own cursor -------------------------------------------------------------------------------------
func everyScanHasItsOwnIterator(c *eng.Ctx) {
	p := c.P
	c.Rule("PROV", "kv/table.storeMMapReader.Iterator{a new iterator per call}", func() {
		f := c.Fn("kv/table.storeMMapReader.Iterator")
		n := 0
		for _, b := range f.Blocks {
			for _, in := range b.Instrs {
				r, ok := in.(*ssa.Return)
				if !ok || len(r.Results) != 1 {
					continue
				}
				n++
				fresh := true
				var desc []string
				for _, src := range leafSources(r.Results[0]) {
					desc = append(desc, p.Desc(src))
					al, isA := src.(*ssa.Alloc)
					if !isA || !al.Heap {
						fresh = false
					}
				}
				c.Check(fresh, fmt.Sprintf("iterator-is-allocated-by-the-call[%d]", n), r, f,
					"the table cache hands one Reader to every snapshot, and compaction, rollup and queries scan it at the same time: each Iterator() call returns an iterator object of its own, never state kept in the reader", "returns "+strings.Join(desc, " | "))
			}
		}
		c.Check(n >= 1, "returns-found", nil, f, "Iterator returns", "")
		// and the key cursor inside it is taken from the key set by that call
		for _, g := range append([]*ssa.Function{f}, localFuncs(f)...) {
			_ = g
		}
	})
}

// ---- C15-m14: only Commit makes a prepared key part of the table ------------------------------------------------------------------------------
func onlyCommitAddsAKey(c *eng.Ctx) {
	p := c.P
	c.Rule("OWNER", "kv/table.streamWriter{a key enters the table through Commit only}", func() {
		for _, m := range []string{"Prepare", "Write", "Size", "CRC32CheckSum"} {
			f := p.Func("kv/table.streamWriter." + m)
			if f == nil {
				continue
			}
			ds := p.DeepSites(f, eng.Any(eng.AnyCallTo("kv/table.storeBuilder.afterWrite", "kv/table.streamWriter.Commit", "kv/table.StreamWriter.Commit"), invokeOn(".keys", "Add")), 3, false)
			c.Check(len(ds) == 0, m+":does-not-commit", nil, f,
				"Prepare / Write never complete an entry: a caller that prepares a key and finds nothing to write (a metric without series data) simply does not commit, and the key is then not in the table", fmt.Sprintf("%d calls of afterWrite / Commit reachable", len(ds)))
		}
		cm := c.Fn("kv/table.streamWriter.Commit")
		// afterWrite, or its body in place: the key is added to the builder's key set
		c.Check(len(p.Sites(cm, eng.Any(eng.AnyCallTo("kv/table.storeBuilder.afterWrite"), invokeOn(".keys", "Add")))) >= 1, "commit-adds-the-key", nil, cm, "Commit records the key", "")
	})
}

// ---- C16-m13: the tags hash is a function of the tags --------------------------------------------------------------------------------------
func tagsHashIsStateless(c *eng.Ctx) {
	c.Rule("PROV", "series/tag.XXHashOfKeyValues{the hash carries no state from one call to the next}", func() {
		f := c.Fn("series/tag.XXHashOfKeyValues")
		n := 0
		for _, b := range eng.BlocksT(f) {
			for _, in := range b.Instrs {
				cl, ok := in.(*ssa.Call)
				if !ok {
					continue
				}
				g := cl.Common().StaticCallee()
				if g == nil || g.Pkg == nil || !strings.HasSuffix(g.Pkg.Pkg.Path(), "xxhash/v2") && !strings.HasSuffix(g.Pkg.Pkg.Path(), "xxhash") {
					continue
				}
				n++
				if g.Signature.Recv() == nil {
					c.Check(true, fmt.Sprintf("one-shot-hash[%d]", n), cl, f, "a one-shot hash function (no state)", "")
					continue
				}
				if g.Name() != "Sum64" {
					continue
				}
				// a streaming digest: created here, or reset before anything was written to it in this call
				d := cl.Common().Args[0]
				ok2 := true
				for _, src := range leafSources(d) {
					if calleeName(src) == "New" {
						continue
					}
					reset := false
					for _, b2 := range eng.BlocksT(f) {
						for _, i2 := range b2.Instrs {
							if c2, isC := i2.(*ssa.Call); isC {
								if g2 := c2.Common().StaticCallee(); g2 != nil && g2.Name() == "Reset" && g2.Signature.Recv() != nil && len(c2.Common().Args) == 1 {
									for _, s2 := range leafSources(c2.Common().Args[0]) {
										if s2 == src {
											reset = true
										}
									}
								}
							}
						}
					}
					if !reset {
						ok2 = false
					}
				}
				c.Check(ok2, fmt.Sprintf("digest-new-or-reset[%d]", n), cl, f,
					"a streaming digest whose sum becomes the tags hash is new or reset in this call: a pooled digest that is not reset makes the hash - and with it the shard and the series identity - depend on what was hashed before", "the digest may come from a pool without Reset()")
			}
		}
		c.Check(n >= 1, "hash-calls-found", nil, f, "XXHashOfKeyValues hashes", "")
	})
}

// ---- C16-m14: the read-only row view keeps nothing from the previous row -----------------------------------------------------------------
func readOnlyRowIsStateless(c *eng.Ctx) {
	p := c.P
	c.Rule("RESET", "series/metric.readOnlyRow{no method reads what an earlier row left behind}", func() {
		const T = "series/metric.readOnlyRow"
		root := func(f *ssa.Function, a ssa.Value) string {
			for d := 0; d < 6; d++ {
				fa, ok := a.(*ssa.FieldAddr)
				if !ok {
					return ""
				}
				if k := eng.FieldKeyOfAddr(fa); strings.HasPrefix(k, T+".") {
					if len(f.Params) > 0 && eng.Unwrap(fa.X) == ssa.Value(f.Params[0]) {
						return k[len(T)+1:]
					}
					return ""
				}
				a = fa.X
			}
			return ""
		}
		methods, reads := 0, 0
		for _, f := range p.AllFuncs {
			if !strings.HasPrefix(p.FuncKey(f), T+".") || f.Signature.Recv() == nil {
				continue
			}
			methods++
			var writes = map[string][]eng.Site{}
			type rd struct {
				fld string
				in  ssa.Instruction
			}
			var rds []rd
			for _, b := range f.Blocks {
				for _, in := range b.Instrs {
					switch x := in.(type) {
					case *ssa.Store:
						if r := root(f, x.Addr); r != "" {
							writes[r] = append(writes[r], eng.Site{Fn: f, Instr: in})
						}
					case *ssa.UnOp:
						if x.Op == token.MUL {
							if r := root(f, x.X); r != "" && r != "m" {
								rds = append(rds, rd{r, in})
							}
						}
					case *ssa.Call:
						for i, a := range x.Common().Args {
							r := root(f, a)
							if r == "" || r == "m" {
								continue
							}
							g := x.Common().StaticCallee()
							if i == 0 && g != nil && g.Signature.Recv() != nil && !resetMethodNames[g.Name()] {
								rds = append(rds, rd{r, in}) // a method call ON the kept sub-object reads it
							} else {
								writes[r] = append(writes[r], eng.Site{Fn: f, Instr: in}) // handed out to be filled
							}
						}
					}
				}
			}
			for i, r := range rds {
				reads++
				c.Check(eng.DominatedBy(f, r.in, writes[r.fld], nil), fmt.Sprintf("%s:%s-set-before-read[%d]", p.FuncKey(f), r.fld, i), r.in, f,
					"the view is re-pointed at another metric by assigning its flat-buffer table directly (StorageRow.Unmarshal, the flat decoder, the broker row) - nothing else is reset - so every other field a method reads was written by that very call",
					"field "+r.fld+" is read before this call wrote it: it still holds what an earlier row left there")
			}
		}
		c.Check(methods >= 5 && reads >= 3, "methods-found", nil, nil, "methods of the read-only view found", fmt.Sprintf("%d methods, %d reads", methods, reads))
	})
}

// ---- C17-m14: what the encoder wrote the decoder accepts ------------------------------------------------------------------------------------
func exprDecoderOnlyFailsOnDecoding(c *eng.Ctx) {
	p := c.P
	c.Rule("ERRFLOW", "sql/stmt.unmarshal{an expression is refused only when its JSON does not decode}", func() {
		f := c.Fn("sql/stmt.unmarshal")
		dec := c.Some(f, func(p *eng.Prog, in ssa.Instruction) bool {
			v, ok := in.(ssa.Value)
			n := ""
			if ok {
				n = calleeName(v)
			}
			return n == "JSONUnmarshal" || n == "Unmarshal" && strings.Contains(strings.Join(p.CalleeKeys(in.(ssa.CallInstruction)), ""), "json")
		}, "encoding.JSONUnmarshal(data, expr)")
		n := 0
		for _, b := range f.Blocks {
			for _, in := range b.Instrs {
				r, ok := in.(*ssa.Return)
				if !ok || len(r.Results) < 2 {
					continue
				}
				ev := r.Results[len(r.Results)-1]
				if eng.IsNilConst(ev) {
					continue
				}
				n++
				fromDec := true
				var desc []string
				for _, src := range leafSources(ev) {
					desc = append(desc, p.Desc(src))
					isD := false
					for _, d := range dec {
						if src == d.Instr.(ssa.Value) {
							isD = true
						}
					}
					if c0, isC := src.(*ssa.Const); isC && c0.IsNil() {
						isD = true
					}
					if !isD {
						fromDec = false
					}
				}
				c.Check(fromDec, fmt.Sprintf("error-is-the-decoders[%d]", n), r, f,
					"the leaf-side decoder of a tag filter / leaf expression adds no acceptance test of its own: everything the parser accepts and Marshal encodes (an empty tag value, an empty key) must decode again, so the only error is the JSON decoder's",
					"returns "+strings.Join(desc, " | "))
			}
		}
		c.Check(n >= 1, "error-return-found", nil, f, "unmarshal returns the decoder's error", "")
	})
}

// ---- C18-m13: what is reported is the state the handlers maintain --------------------------------------------------------------------------
func reportedStateIsTheLiveState(c *eng.Ctx) {
	p := c.P
	c.Rule("PROV", "coordinator/master.stateManager.GetStorageState{the reported state is the one the event handlers maintain}", func() {
		f := c.Fn("coordinator/master.stateManager.GetStorageState")
		n := 0
		for _, b := range f.Blocks {
			for _, in := range b.Instrs {
				r, ok := in.(*ssa.Return)
				if !ok || len(r.Results) != 1 {
					continue
				}
				n++
				live := true
				for _, src := range leafSources(r.Results[0]) {
					if !eng.DependsOnField(src, "coordinator/master.stateManager.storage") {
						live = false
					}
				}
				c.Check(live, fmt.Sprintf("from-the-live-cluster-state[%d]", n), r, f,
					"the state handed out comes from m.storage - the object every node / assignment event updates; a copy refreshed only by a successful repository write stops following the events as soon as one sync fails (the handlers do not retry)", "returns "+p.Desc(r.Results[0]))
			}
		}
		c.Check(n >= 1, "returns-found", nil, f, "GetStorageState returns", "")
	})
}

// ---- C18-m14: no discovered change is dropped ----------------------------------------------------------------------------------------------
func everyEventIsQueued(c *eng.Ctx) {
	p := c.P
	c.Rule("PASS", "coordinator/master.stateManager.EmitEvent{every event reaches the queue}", func() {
		f := c.Fn("coordinator/master.stateManager.EmitEvent")
		sends := p.Sites(f, func(p *eng.Prog, in ssa.Instruction) bool {
			s, ok := in.(*ssa.Send)
			return ok && eng.DependsOnField(s.Chan, "coordinator/master.stateManager.events") && isParam(s.X, "event")
		})
		_, skip := eng.PathExists(eng.PathQuery{Fn: f,
			Target:  func(x ssa.Instruction) bool { _, ok := x.(*ssa.Return); return ok && x.Parent() == f },
			Blocked: func(x ssa.Instruction) bool { return inSites(x, sends) }})
		c.Check(len(sends) >= 1 && !skip, "sent-on-every-path", nil, f,
			"the master's state is a fold over the discovery events and nothing re-reads the repository: EmitEvent hands every event to the queue (blocking when it is full); a send that can time out or lose a select drops a node failure for good",
			"EmitEvent can return without having sent the event")
	})
}

// ---- C19-m13 (and C12): a response's error is looked at before anything else decides to skip it --------------------------------------------
func responseErrorAlwaysExamined(c *eng.Ctx) {
	p := c.P
	c.Rule("PASS", mcT+".handleResponse{the error of a response is examined on every path}", func() {
		f := c.Fn(mcT + ".handleResponse")
		ck := p.Sites(f, eng.CallTo(mcT+".checkError"))
		_, skip := eng.PathExists(eng.PathQuery{Fn: f,
			Target:  func(x ssa.Instruction) bool { _, ok := x.(*ssa.Return); return ok && x.Parent() == f },
			Blocked: func(x ssa.Instruction) bool { return inSites(x, ck) }})
		c.Check(len(ck) >= 1 && !skip, "checkError-before-every-return", nil, f,
			"a failed leaf answers with an error message and NO payload; whatever else the root decides about a response (empty, nothing to merge), it has looked at ErrMsg first - otherwise a failed shard is counted as answered and the query succeeds with the others' data",
			"handleResponse can return without calling checkError")
		for i, s := range ck {
			a := eng.CallArgs(s.Instr.(*ssa.Call))
			c.Check(eng.DependsOnField(a[0], "proto/gen/v1/common.TaskResponse.ErrMsg") || strings.Contains(p.Desc(a[0]), "ErrMsg"), fmt.Sprintf("examines-the-response-message[%d]", i), s.Instr, f, "checkError is given the response's ErrMsg", p.Desc(a[0]))
		}
	})
}

// ---- C19-m14: a stage never waits for a slot of the pool it runs on ---------------------------------------------------------------------------
func stagePoolsAreDistinct(c *eng.Ctx) {
	p := c.P
	c.Rule("PROV", "tsdb.newDatabase{filtering, grouping and scanner stages run on three different pools}", func() {
		f := c.Fn("tsdb.newDatabase")
		src := map[string]ssa.Value{}
		for _, fld := range []string{"Filtering", "Grouping", "Scanner"} {
			for _, s := range p.Sites(f, eng.StoreField("tsdb.ExecutorPool."+fld)) {
				ls := leafSources(s.Instr.(*ssa.Store).Val)
				if len(ls) == 1 {
					src[fld] = ls[0]
				}
			}
		}
		if len(src) != 3 {
			c.Undecided("unrecognised shape: expected one store of a pool into each of ExecutorPool.{Filtering,Grouping,Scanner}, found %d", len(src))
		}
		okNew := true
		for _, v := range src {
			if calleeName(v) != "NewPool" {
				okNew = false
			}
		}
		c.Check(okNew, "each-from-NewPool", nil, f, "each stage class gets a pool created by concurrent.NewPool", "")
		distinct := src["Filtering"] != src["Grouping"] && src["Grouping"] != src["Scanner"] && src["Filtering"] != src["Scanner"]
		c.Check(distinct, "three-different-pools", nil, f,
			"a stage runs ON a worker of its class's pool and submits its child stages - with the blocking Submit - to the NEXT class's pool; with one shared bounded pool every worker can be a parent waiting for a queue slot that only a worker could free: no stage completes, no response is sent",
			"two stage classes share one pool object")
	})
}

// ---- C13-m16: the slot base of a rollup target is the start of the target FAMILY -------------------------------------------------------------
func rollupSlotBaseIsTheFamilyStart(c *eng.Ctx) {
	p := c.P
	c.Rule("PROV", "kv.family.rollup{the target slot is counted from the start of the target family}", func() {
		f := c.Fn("kv.family.rollup")
		n := 0
		var blocks []*ssa.BasicBlock
		// the job body: function literals of rollup, and a named unexported function it starts as the goroutine
		for _, g := range append(closuresT(f), localFuncs(f)...) {
			blocks = append(blocks, eng.BlocksT(g)...)
			for _, h := range closuresT(g) {
				if h != g {
					blocks = append(blocks, eng.BlocksT(h)...)
				}
			}
		}
		for _, b := range blocks {
			for _, in := range b.Instrs {
				// the rollup context is made by newRollup(…, targetBase), or written in place as &rollup{…, targetFTime: targetBase}
				var base ssa.Value
				var cl ssa.Instruction
				if call, ok := in.(*ssa.Call); ok && call.Common().StaticCallee() != nil && call.Common().StaticCallee().Name() == "newRollup" {
					a := call.Common().Args
					base, cl = a[len(a)-1], call
				} else if st, ok := in.(*ssa.Store); ok && eng.StoreField("kv.rollup.targetFTime")(p, in) && in.Parent().Name() != "newRollup" {
					base, cl = st.Val, st
				}
				if base == nil {
					continue
				}
				n++
				okB := true
				var desc []string
				for _, src := range leafSources(base) {
					desc = append(desc, p.Desc(src))
					xi, isI := src.(ssa.Instruction)
					if !isI {
						okB = false
						continue
					}
					if _, isS := isCalcCall(xi, "CalcFamilyStartTime"); !isS {
						if _, isT := isCalcCall(xi, "CalcFamilyTime"); !isT {
							okB = false
						}
					}
				}
				c.Check(okB, fmt.Sprintf("target-base-is-CalcFamilyStartTime[%d]", n), cl, f,
					"rollup.CalcSlot hands its target base to the target calculator's CalcSlot, which counts slots from the start of a FAMILY; the base is the result of CalcFamilyStartTime of the target calculator (the segment start gives the same slot only for calculators that reduce modulo the family length - not for year-type targets)",
					"base = "+strings.Join(desc, " | "))
			}
		}
		c.Check(n >= 1, "newRollup-found", nil, f, "the rollup context is created in family.rollup", "")
		// and newRollup keeps that argument as the base CalcSlot uses
		cs := c.Fn("kv.rollup.CalcSlot")
		okU := false
		for _, s := range p.Sites(cs, invokeOn("", "CalcSlot")) {
			a := eng.CallArgs(s.Instr.(*ssa.Call))
			if len(a) == 3 && eng.DependsOnField(a[1], "kv.rollup.targetFTime") {
				okU = true
			}
		}
		c.Check(okU, "slot-counted-from-that-base", nil, cs, "rollup.CalcSlot counts from rollup.targetFTime", "")
		nr := c.Fn("kv.newRollup")
		okS := false
		for _, s := range p.Sites(nr, eng.StoreField("kv.rollup.targetFTime")) {
			if pr, isP := eng.Unwrap(s.Instr.(*ssa.Store).Val).(*ssa.Parameter); isP && pr == nr.Params[len(nr.Params)-1] {
				okS = true
			}
		}
		c.Check(okS, "base-kept-as-given", nil, nr, "newRollup stores its last argument as the target base", "")
	})
}

// ---- F52 (C10): a look-up that took its snapshot first may call a key absent only if no flush completed meanwhile --------------------------
func lookupMissIsFinalOnlyOnCurrentSnapshot(c *eng.Ctx) {
	c.Rule("GUARD", kvsT+".getOrCreateValue{a pure look-up reports 'absent' only against the current snapshot}", func() {
		f := c.Fn(kvsT + ".getOrCreateValue")
		snapV, snapAt := lookupSnapshotOf(c)
		if snapAt == nil {
			c.Undecided("unrecognised shape: the snapshot handed to createValue is neither s.getSnapshot() nor a read of s.snapshot")
		}
		// the memory look-up: the exported helper, or the two stores read in place
		mems := c.P.SitesDirect(f, eng.AnyCallTo(kvsT+".GetValueFromMem", kvsT+".getValueFromMem"))
		if len(mems) == 0 {
			c.Undecided("unrecognised shape: getOrCreateValue does not look the key up in the memory stores (GetValueFromMem / getValueFromMem)")
		}
		snapshotFirst := false
		for _, mem := range mems {
			if eng.DominatedBy(f, mem.Instr, []eng.Site{{Fn: f, Instr: snapAt}}, nil) {
				snapshotFirst = true
			}
		}
		if !snapshotFirst {
			// memory first, snapshot afterwards: a key that left memory is in the snapshot taken later - nothing to re-check
			c.Check(true, "memory-read-before-the-snapshot", mems[0].Instr, f, "the memory stores are read before the snapshot is taken", "")
			return
		}
		// snapshot first (createValue needs it to detect a flush): the look-up-only exits
		var nilEdges []eng.Edge
		for _, b := range f.Blocks {
			ifi, ok := b.Instrs[len(b.Instrs)-1].(*ssa.If)
			if !ok {
				continue
			}
			bo, ok := eng.Unwrap(ifi.Cond).(*ssa.BinOp)
			if !ok || bo.Op != token.EQL && bo.Op != token.NEQ {
				continue
			}
			if !(isParam(bo.X, "createFn") && eng.IsNilConst(bo.Y) || isParam(bo.Y, "createFn") && eng.IsNilConst(bo.X)) {
				continue
			}
			if bo.Op == token.EQL {
				nilEdges = append(nilEdges, eng.Edge{B: b, Succ: 0})
			} else {
				nilEdges = append(nilEdges, eng.Edge{B: b, Succ: 1})
			}
		}
		if len(nilEdges) == 0 {
			c.Undecided("unrecognised shape: no test of createFn against nil in getOrCreateValue")
		}
		// equal-edges of a comparison of the store's current snapshot with the one the look-up used
		same := snapshotSameEdges(c.P, f, func(v ssa.Value) bool { return eng.SameValue(v, snapV) })
		n := 0
		for _, e := range nilEdges {
			first := e.B.Succs[e.Succ].Instrs[0]
			for _, b := range f.Blocks {
				r, ok := b.Instrs[len(b.Instrs)-1].(*ssa.Return)
				if !ok {
					continue
				}
				// a "not found, no error" exit of the look-up-only branch
				if _, reach := eng.PathExists(eng.PathQuery{Fn: f, After: first, Target: func(x ssa.Instruction) bool { return x == r }}); !reach && first != ssa.Instruction(r) {
					continue
				}
				if len(r.Results) < 4 || !eng.IsNilConst(r.Results[3]) {
					continue
				}
				if k, isC := r.Results[1].(*ssa.Const); !isC || k.Value == nil || k.Value.String() != "false" {
					continue
				}
				n++
				okS := false
				for _, se := range same {
					if eng.DominatedByEdge(f, r, se) {
						okS = true
					}
				}
				c.Check(okS, fmt.Sprintf("absent-only-when-no-flush-completed[%d]", n), r, f,
					"the look-up took its snapshot BEFORE reading memory (createValue needs that order); a flush that completes in between moves the key from memory into a file that snapshot does not see, so 'absent' is answered only on the edge where s.snapshot is still the snapshot used - otherwise the look-up is repeated. An equals / in filter on an existing tag value otherwise selects nothing while the dictionary is flushed",
					"the not-found exit is reachable without s.snapshot having been compared with the look-up's snapshot")
			}
		}
		c.Check(n >= 1, "lookup-only-exit-found", nil, f, "the look-up-only branch has a not-found exit", "")
	})
}

// ---- F53 (C09): the schema store never adopts a schema that was read before the last flush -------------------------------------------------
func schemaReadBeforeAFlushIsNotAdopted(c *eng.Ctx) {
	p := c.P
	const T = "index.metricSchemaStore"
	c.Rule("GUARD", T+"{a schema read from the files before a flush completed is neither cached nor registered}", func() {
		// (a) GetSchema caches what it loaded only if no flush completed since before the load, decided under the store lock
		gs := c.Fn(T + ".GetSchema")
		load := c.One(gs, eng.CallTo(T+".getSchemaFromKV"), "s.getSchemaFromKV(id)")
		for i, add := range c.Some(gs, invokeOn(".cache", "Add"), "s.cache.Add(id, schema)") {
			g := add.Instr.Parent()
			held := p.Locks(g, nil).At(add.Instr)
			okV := false
			for _, b := range eng.BlocksT(gs) {
				ifi, isIf := b.Instrs[len(b.Instrs)-1].(*ssa.If)
				if !isIf {
					continue
				}
				bo, isB := eng.Unwrap(ifi.Cond).(*ssa.BinOp)
				if !isB || bo.Op != token.EQL && bo.Op != token.NEQ {
					continue
				}
				x, y := bo.X, bo.Y
				if !eng.DependsOnField(x, T+".flushVersion") || calleeName(eng.Unwrap(x)) == "getFlushVersion" {
					x, y = y, x
				}
				// x: the store's version now (a field read), y: the version captured before the load (getFlushVersion() result)
				yc, isC := eng.Unwrap(y).(*ssa.Call)
				if !eng.DependsOnField(x, T+".flushVersion") || !isC || calleeName(yc) != "getFlushVersion" {
					continue
				}
				if !eng.DominatedBy(gs, load.Instr, []eng.Site{{Fn: gs, Instr: yc}}, nil) {
					continue
				}
				succ := 0
				if bo.Op == token.NEQ {
					succ = 1
				}
				if b.Parent() == g && eng.DominatedByEdge(g, add.Instr, eng.Edge{B: b, Succ: succ}) {
					okV = true
				}
			}
			c.Check(okV && held.HasField(T+".lock", false), fmt.Sprintf("cached-only-if-no-flush-since-the-read[%d]", i), add.Instr, g,
				"Flush purges the schema cache under the store lock; a schema loaded from the files BEFORE that flush and added to the cache after it is stale (it lacks the fields / tag keys the flush persisted) and would be registered as THE schema of the metric: the cache takes a loaded schema only on the edge where the flush version still equals the one captured before the load, while the lock is held",
				"held at cache.Add: "+held.String())
		}
		// (b) under the write lock, a completed flush makes the looked-up schema out of date whether it is nil or not
		u := c.Fn(T + ".getOrCreateSchemaUnderLock")
		for i, rr := range c.Some(u, eng.CallTo(T+".getSchemaFromKV"), "s.getSchemaFromKV(id) (re-read)") {
			conds, _ := eng.GuardingConds(u, rr.Instr)
			byVersion, byLookupNil := false, false
			for _, cd := range conds {
				if eng.DependsOnField(cd, T+".flushVersion") {
					byVersion = true
				}
				bo, isB := eng.Unwrap(cd).(*ssa.BinOp)
				if isB && (eng.IsNilConst(bo.X) || eng.IsNilConst(bo.Y)) {
					other := bo.X
					if eng.IsNilConst(other) {
						other = bo.Y
					}
					for _, src := range leafSources(other) {
						if isParam(src, "lookupSchema") {
							byLookupNil = true
						}
					}
				}
			}
			c.Check(byVersion && !byLookupNil, fmt.Sprintf("re-read-whenever-a-flush-completed[%d]", i), rr.Instr, u,
				"when a flush completed after the caller's look-up and the memory stores do not hold the schema, the files are read again - also when the look-up returned a schema: that schema was read from (or cached from) the files before the flush",
				fmt.Sprintf("guarded by the flush version: %v; additionally only when the looked-up schema is nil: %v", byVersion, byLookupNil))
		}
	})
}

// ---- F54 (C19): the state machine's mutex survives a panicking stage hook -------------------------------------------------------------------
func stateMutexReleasedWhenAStageHookPanics(c *eng.Ctx) {
	p := c.P
	c.Rule("TYPESTATE", smT+"{stage code runs under the state mutex only when its release is deferred; a stage's complete hook runs once}", func() {
		mu := smT + ".mutex"
		n := 0
		for _, g := range p.AllFuncs {
			if !strings.HasPrefix(p.FuncKey(g), smT+".") {
				continue
			}
			ls := p.Locks(g, nil)
			for _, b := range eng.BlocksT(g) { // g and the helpers it enters transparently (the hooks may sit in a method of the tracker)
				for _, in := range b.Instrs {
					cl, ok := in.(*ssa.Call)
					if !ok || !cl.Common().IsInvoke() {
						continue
					}
					if !strings.HasSuffix(cl.Common().Value.Type().String(), "stage.Stage") {
						continue
					}
					top := in
					if in.Parent() != g {
						if t := eng.TopOf(g, eng.Site{Fn: in.Parent(), Instr: in}); t != nil {
							top = t
						} else {
							continue
						}
					}
					if !ls.At(top).HasField(mu, true) {
						continue
					}
					n++
					// the release of that hold is deferred: a `defer sm.mutex.Unlock()` dominates the call
					var defs []eng.Site
					for _, b2 := range g.Blocks {
						for _, i2 := range b2.Instrs {
							if d, isD := i2.(*ssa.Defer); isD {
								if f2 := d.Common().StaticCallee(); f2 != nil && f2.Name() == "Unlock" && len(d.Common().Args) > 0 && eng.DependsOnField(d.Common().Args[0], mu) {
									defs = append(defs, eng.Site{Fn: g, Instr: i2})
								}
							}
						}
					}
					c.Check(len(defs) > 0 && eng.DominatedBy(g, top, defs, nil), fmt.Sprintf("%s.%s:unlock-deferred[%d]", p.FuncKey(g), cl.Common().Method.Name(), n), in, g,
						"Stats() / Complete() of a stage run operator and grouping code (meta-database reads, tracker callbacks); called with the state mutex held, its release is deferred: after a panic there the recover of executeStage / of the pool completes the stage AGAIN and needs the mutex - an explicit Unlock after the hooks leaves it locked and the pipeline never completes",
						"the mutex is held at this call and its Unlock is not deferred")
				}
			}
		}
		c.Check(n >= 1, "stage-calls-under-the-mutex-found", nil, nil, "the state machine calls stage hooks while it holds its mutex", fmt.Sprintf("%d", n))
		// the second completion of a stage whose hook panicked must not run the hook again
		for _, g := range p.AllFuncs {
			if !strings.HasPrefix(p.FuncKey(g), smT+".") {
				continue
			}
			for i, s := range p.Sites(g, invokeOn(".stage", "Complete")) {
				conds, _ := eng.GuardingConds(g, s.Instr)
				once := false
				for _, cd := range conds {
					if eng.DependsOn(cd, func(x ssa.Value) bool {
						u, ok := x.(*ssa.UnOp)
						if !ok || u.Op != token.MUL {
							return false
						}
						fa, ok := u.X.(*ssa.FieldAddr)
						return ok && strings.HasPrefix(eng.FieldKeyOfAddr(fa), "query.stageTracker.")
					}) || eng.DependsOn(cd, func(x ssa.Value) bool {
						// … or on what a helper of the state machine answered, when that helper decides on such a flag
						cl, ok := x.(*ssa.Call)
						if !ok {
							return false
						}
						h := eng.TransparentCallee(cl)
						if h == nil {
							return false
						}
						for _, hb := range h.Blocks {
							if ifi, isIf := hb.Instrs[len(hb.Instrs)-1].(*ssa.If); isIf && eng.DependsOn(ifi.Cond, func(y ssa.Value) bool {
								u, ok := y.(*ssa.UnOp)
								if !ok || u.Op != token.MUL {
									return false
								}
								fa, ok := u.X.(*ssa.FieldAddr)
								return ok && strings.HasPrefix(eng.FieldKeyOfAddr(fa), "query.stageTracker.")
							}) {
								return true
							}
						}
						return false
					}) {
						once = true
					}
				}
				c.Check(once, fmt.Sprintf("complete-hook-runs-once[%d]", i), s.Instr, g,
					"whether a stage's Complete() hook runs depends on a flag of its tracker: the completion that follows a panic of the hook (with the panic as the stage's error) does not run the hook a second time", "Complete() is called on every completion of the stage")
			}
		}
	})
}

// ---- F55 (C03): the merge-side scanner treats an empty series bucket like the query-side reader, and a failed advance changes nothing ------
func scannerAdvanceIsAllOrNothing(c *eng.Ctx) {
	p := c.P
	const T = "tsdb/tblstore/metricsdata.dataScanner"
	c.Rule("GUARD", T+".nextContainer{an empty bucket is not an error; a failed advance leaves the scanner where it was}", func() {
		f := c.Fn(T + ".nextContainer")
		// (a) no scanner field is assigned on a path that can still fail
		var failing []eng.Site
		for _, b := range f.Blocks {
			if r, ok := b.Instrs[len(b.Instrs)-1].(*ssa.Return); ok && len(r.Results) == 1 && !eng.ReturnsNilError(r) {
				failing = append(failing, eng.Site{Fn: f, Instr: r})
			}
		}
		n := 0
		for _, fld := range []string{"highKey", "container", "seriesEntries", "highContainerIdx"} {
			for i, st := range p.Sites(f, eng.StoreField(T+"."+fld)) {
				n++
				w, late := eng.Reaches(f, st.Instr, failing, nil)
				det := ""
				if late {
					det = "after this store the advance can still fail at " + p.InstrPos(w) + ": scan() swallows that error and goes on with a half-advanced scanner (the new high key with the offsets of the old bucket)"
				}
				c.Check(!late, fmt.Sprintf("assigned-only-when-the-advance-succeeds:%s[%d]", fld, i), st.Instr, f,
					"the scanner's position (high key, container, entries, index) is assigned only when nothing can fail any more", det)
			}
		}
		c.Check(n >= 4, "position-stores-found", nil, f, "nextContainer assigns the scanner's position", fmt.Sprintf("%d stores", n))
		// (a') a successful advance (re)assigns EVERY per-container field: what describes the previous container does not survive
		// into the next one (an "empty bucket" flag that is only ever set makes every later bucket of the block merge as absent)
		perContainer := []string{"highKey", "container", "seriesEntries", "highContainerIdx"}
		if len(p.SitesInProgram(eng.StoreField(T+".empty"))) > 0 {
			perContainer = append(perContainer, "empty")
		}
		for _, fld := range perContainer {
			stores := p.Sites(f, eng.StoreField(T+"."+fld))
			for i, r := range eng.SuccessReturns(f) {
				c.Check(len(stores) > 0 && eng.DominatedBy(f, r, stores, nil), fmt.Sprintf("assigned-on-every-successful-advance:%s[%d]", fld, i), r, f,
					"every field that describes the current container is assigned on every path of a successful advance - a field that is only set on one branch keeps the previous container's value on the other",
					"a successful return is reachable without a store to "+fld)
			}
		}
		// (b) the writer legitimately produces a bucket of <= 4 bytes (every series of it has an empty entry); the query-side reader
		// answers "no data" for it - so does the scanner: the short-bucket edge does not lead to an error
		short := 0
		for _, b := range eng.BlocksT(f) {
			ifi, ok := b.Instrs[len(b.Instrs)-1].(*ssa.If)
			if !ok {
				continue
			}
			bo, ok := eng.Unwrap(ifi.Cond).(*ssa.BinOp)
			if !ok {
				continue
			}
			k, isC := eng.ConstInt(bo.Y)
			lenCall, isLen := eng.Unwrap(bo.X).(*ssa.Call)
			if !isC || !isLen {
				continue
			}
			if bi, isB := lenCall.Common().Value.(*ssa.Builtin); !isB || bi.Name() != "len" {
				continue
			}
			succ := -1
			switch {
			case bo.Op == token.LEQ && k == 4, bo.Op == token.LSS && k == 5:
				succ = 0
			case bo.Op == token.GTR && k == 4, bo.Op == token.GEQ && k == 5:
				succ = 1
			}
			if succ < 0 {
				continue
			}
			short++
			first := b.Succs[succ].Instrs[0]
			bad := false
			// the function the test is written in: nextContainer itself or a helper it was split into
			g := b.Parent()
			gFailing := failing
			if g != f {
				gFailing = nil
				for _, gb := range g.Blocks {
					if r, ok := gb.Instrs[len(gb.Instrs)-1].(*ssa.Return); ok && len(r.Results) >= 1 && !eng.ReturnsNilError(r) {
						gFailing = append(gFailing, eng.Site{Fn: g, Instr: r})
					}
				}
			}
			for _, fr := range gFailing {
				if first == fr.Instr {
					bad = true
				}
				if _, reach := eng.PathExists(eng.PathQuery{Fn: g, After: first, Target: func(x ssa.Instruction) bool { return x == fr.Instr }}); reach {
					// reachable at all is fine only if the success return is reachable too; an unconditional failure is what is refused
					okToo := false
					for _, sr := range eng.SuccessReturns(g) {
						if _, r2 := eng.PathExists(eng.PathQuery{Fn: g, After: first, Target: func(x ssa.Instruction) bool { return x == sr }}); r2 || first == sr {
							okToo = true
						}
					}
					if !okToo {
						bad = true
					}
				}
			}
			c.Check(!bad, fmt.Sprintf("short-bucket-is-no-data[%d]", short), ifi, f,
				"a series bucket of at most 4 bytes is what the block writer emits when every series of the bucket has an empty entry; the query-side reader returns 'no data' for it, and the merge-side scanner must not fail on it (a failed advance hides the rest of the block, or moves another series' values under this one)",
				"the short-bucket edge of nextContainer ends in an error")
		}
		c.Check(short >= 1, "short-bucket-test-found", nil, f, "nextContainer tests for the short bucket", "")
		// the sibling: the query-side reader's short-bucket edge returns no error
	})
}

// ---- F56 (C03): a compaction whose output is split over several files keeps writing into the CURRENT output -------------------------------
func compactionStreamFollowsTheOutputFile(c *eng.Ctx) {
	p := c.P
	c.Rule("TYPESTATE", "kv.compactFlusherStreamWriter{each entry is prepared on the output file that is open now}", func() {
		// the mergers take the stream writer once per compaction (metricsdata.NewFlusher, the index mergers) ...
		once := 0
		for _, k := range []string{"tsdb/tblstore/metricsdata.NewFlusher", "index/v1.NewIndexKVMerger"} {
			if f := p.Func(k); f != nil && len(p.Sites(f, invokeOn("", "StreamWriter"))) > 0 {
				once++
			}
		}
		c.Check(once >= 1, "writer-taken-once-per-compaction", nil, nil, "mergers obtain the stream writer once, in their constructor", fmt.Sprintf("%d constructors", once))
		// ... and afterAdd closes the output file when it is big enough (state.builder = nil): the writer handed out must therefore
		// look at the job's CURRENT builder for every entry: its own Prepare opens the next output file when none is open and takes
		// the stream writer of that builder
		fin := c.Fn(cjT + ".finishCompactionOutputFile")
		nClr := 0
		for _, g := range append(closuresT(fin), localFuncs(fin)...) {
			nClr += len(p.SitesDirect(g, eng.StoreField("kv.compactionState.builder")))
		}
		c.Check(nClr > 0, "rollover-closes-the-builder", nil, fin, "finishing an output file clears state.builder", "")
		pr := p.Func("kv.compactFlusherStreamWriter.Prepare")
		if pr == nil || pr.Synthetic != "" || len(pr.Blocks) == 0 {
			c.Check(false, "prepare-goes-through-the-wrapper", nil, nil,
				"the stream writer a compaction hands out intercepts Prepare: a writer that forwards Prepare to the table writer it was created with stays bound to the FIRST output file - after the roll-over at MaxFileSize the next entry is written to a closed file and its Commit dereferences the nil builder (the compaction goroutine has no recover: the process dies, and dies again after every restart)",
				"compactFlusherStreamWriter has no Prepare of its own (it is promoted from the embedded table.StreamWriter)")
			return
		}
		open := p.DeepSites(pr, eng.AnyCallTo(cjT+".openCompactionOutputFile"), 3, false)
		c.Check(len(open) > 0, "prepare-opens-the-next-output", nil, pr, "Prepare opens an output file when none is open", "")
		sw := p.DeepSites(pr, func(p *eng.Prog, in ssa.Instruction) bool {
			cl, ok := in.(*ssa.Call)
			return ok && cl.Common().IsInvoke() && cl.Common().Method.Name() == "StreamWriter" && eng.DependsOnField(cl.Common().Value, "kv.compactionState.builder")
		}, 3, false)
		c.Check(len(sw) > 0, "prepare-binds-the-current-builder", nil, pr, "Prepare takes the stream writer of the job's current builder", "")
		inner := p.Sites(pr, func(p *eng.Prog, in ssa.Instruction) bool {
			cl, ok := in.(*ssa.Call)
			return ok && cl.Common().IsInvoke() && cl.Common().Method.Name() == "Prepare"
		})
		c.Check(len(inner) > 0, "prepare-forwards", nil, pr, "Prepare forwards to the table's stream writer", "")
	})
}

// ---- F58 (C13): an interval the database option accepts is positive ----------------------------------------------------------------------
func acceptedIntervalsArePositive(c *eng.Ctx) {
	p := c.P
	c.Rule("GUARD", "pkg/option.Intervals.IsValid{every accepted interval is positive}", func() {
		f := c.Fn("pkg/option.Intervals.IsValid")
		n := 0
		for _, b := range f.Blocks {
			ifi, ok := b.Instrs[len(b.Instrs)-1].(*ssa.If)
			if !ok {
				continue
			}
			bo, ok := eng.Unwrap(ifi.Cond).(*ssa.BinOp)
			if !ok {
				continue
			}
			x, y, op := bo.X, bo.Y, bo.Op
			if k, isC := eng.ConstInt(x); isC && k == 0 {
				x, y = y, x
				op = map[token.Token]token.Token{token.LSS: token.GTR, token.GTR: token.LSS, token.LEQ: token.GEQ, token.GEQ: token.LEQ}[op]
			}
			if k, isC := eng.ConstInt(y); !isC || k != 0 || !eng.DependsOnField(x, "pkg/option.Interval.Interval") {
				continue
			}
			// the edge on which the interval is NOT positive
			bad := -1
			switch op {
			case token.LEQ:
				bad = 0
			case token.GTR:
				bad = 1
			}
			if bad < 0 {
				continue
			}
			n++
			first := b.Succs[bad].Instrs[0]
			okFail := true
			for _, sr := range eng.SuccessReturns(f) {
				if _, reach := eng.PathExists(eng.PathQuery{Fn: f, After: first, Target: func(z ssa.Instruction) bool { return z == sr }}); reach || first == sr {
					okFail = false
				}
			}
			c.Check(okFail, fmt.Sprintf("non-positive-interval-refused[%d]", n), ifi, f,
				"an interval of zero or less never validates: CalcSlot and Truncate divide by the interval, a negative one yields negative slots (65356 as uint16)", "the non-positive edge can still reach the success return")
			everyIterationPasses(c, f, eng.Site{Fn: f, Instr: ifi}, fmt.Sprintf("every-interval-tested[%d]", n), "the test is made for every interval of the list")
		}
		c.Check(n >= 1, "positivity-test-found", nil, f,
			"Intervals.IsValid - the validation every database option passes through - refuses an interval that is not positive (the `required` struct tags of the elements are never reached: the list is validated without `dive`)",
			"no comparison of Interval.Interval with zero in IsValid")
		v := c.Fn("pkg/option.DatabaseOption.Validate")
		c.Check(len(p.Sites(v, eng.AnyCallTo("pkg/option.Intervals.IsValid"))) >= 1, "validate-calls-it", nil, v, "DatabaseOption.Validate calls Intervals.IsValid", "")
	})
}

// ---- F59 (C16): a family group always contains the row that opened it -------------------------------------------------------------------
func familyGroupContainsItsFirstRow(c *eng.Ctx) {
	p := c.P
	const T = "series/metric.BrokerBatchShardFamilyIterator"
	c.Rule("PASS", T+".HasNextFamily{the row that opens a group belongs to it: the iteration always advances}", func() {
		f := c.Fn(T + ".HasNextFamily")
		// the store that opens a new group
		open := c.Some(f, eng.StoreField(T+".groupStart"), "itr.groupStart = itr.groupEnd")
		contains := c.Some(f, eng.AnyCallTo("pkg/timeutil.TimeRange.Contains"), "timeRange.Contains(ts)")
		// increments of groupEnd that do not depend on the range test
		var free []eng.Site
		for _, st := range p.Sites(f, eng.StoreField(T+".groupEnd")) {
			v, _ := storedValue(st.Instr)
			base, off := eng.SplitConstOffset(v)
			if off != 1 || base == nil || !eng.DependsOnField(base, T+".groupEnd") {
				continue
			}
			conds, _ := eng.GuardingConds(f, st.Instr)
			dep := false
			for _, cd := range conds {
				for _, ct := range contains {
					if eng.DependsOn(cd, func(x ssa.Value) bool { return x == ct.Instr.(ssa.Value) }) {
						dep = true
					}
				}
			}
			if !dep {
				free = append(free, st)
			}
		}
		n := 0
		for _, o := range open {
			v, _ := storedValue(o.Instr)
			if !eng.DependsOnField(v, T+".groupEnd") {
				continue // the same-family shortcut stores a constant
			}
			n++
			_, stuck := eng.PathExists(eng.PathQuery{Fn: f, After: o.Instr,
				Target:  func(x ssa.Instruction) bool { _, ok := x.(*ssa.Return); return ok },
				Blocked: func(x ssa.Instruction) bool { return inSites(x, free) }})
			c.Check(!stuck, fmt.Sprintf("first-row-taken-unconditionally[%d]", n), o.Instr, f,
				"after a group is opened at the current row, that row is taken into it whatever the family range computed from its timestamp says (for a timestamp just below a calendar boundary - e.g. -1, a common 'unset' value - the computed range does not contain the timestamp itself): otherwise HasNextFamily answers 'no more families' and every remaining row of the shard is dropped while Write reports success",
				"a return is reachable after opening the group without an unconditional groupEnd++")
		}
		c.Check(n >= 1, "group-open-found", nil, f, "HasNextFamily opens a group at the current row", "")
	})
}

// ---- F60 (C11): the aggregators of one container are reduced once ------------------------------------------------------------------------
func dataLoadContextReducedOnce(c *eng.Ctx) {
	c.Rule("ATOMIC", "query/operator.leafReduce.Execute{the reduce of a data-load context is claimed, not observed}", func() {
		f := c.Fn("query/operator.leafReduce.Execute")
		red := c.Some(f, invokeOn(".executeCtx", "Reduce"), "op.executeCtx.Reduce(…)")
		for i, r := range red {
			conds, _ := eng.GuardingConds(f, r.Instr)
			claimed := false
			var seen, byValue []string
			for _, cd := range conds {
				eng.WalkExpr(cd, func(x ssa.Value) bool {
					cl, ok := x.(*ssa.Call)
					if !ok {
						return true
					}
					n := calleeName(cl)
					if fa, m, _ := eng.AtomicOp(cl); fa != nil {
						n = m
					}
					seen = append(seen, n)
					switch n {
					case "CompareAndSwap", "CAS", "Dec", "Inc", "Add", "Sub", "Swap":
						if len(cl.Common().Args) > 0 && (eng.DependsOnField(cl.Common().Args[0], "flow.DataLoadContext.PendingDataLoadTasks") ||
							eng.DependsOn(cl.Common().Args[0], func(y ssa.Value) bool {
								fa, ok := y.(*ssa.FieldAddr)
								if !ok || !strings.HasPrefix(eng.FieldKeyOfAddr(fa), "flow.DataLoadContext.") {
									return false
								}
								// every stage works on a COPY of the context (groupingStage.NextStages): only state behind a pointer
								// is shared by the copies - a flag held by value would be claimed once per stage
								pt, isP := fa.Type().Underlying().(*types.Pointer)
								if !isP {
									return false
								}
								_, shared := pt.Elem().Underlying().(*types.Pointer)
								if !shared {
									byValue = append(byValue, eng.FieldKeyOfAddr(fa))
								}
								return shared
							})) {
							claimed = true
						}
					}
					return true
				})
			}
			c.Check(claimed, fmt.Sprintf("reduce-claimed-by-an-atomic-read-modify-write[%d]", i), r.Instr, f,
				"the data-load stages of the families of one query share one context (counter and aggregators) and run concurrently; every stage ends with this operator. Whether it reduces must be decided by an atomic read-modify-write on that context (a CompareAndSwap flag, or the result of the decrement): a plain Load() == 0 lets two stages that finish together both reduce, and the second aggregates the same series again before the first resets them - doubled values",
				"the reduce is guarded only by: "+strings.Join(seen, ", ")+"; flags held by value in the copied context: "+strings.Join(byValue, ", "))
		}
	})
}

// ---- F61 (C18): what a (re-)established watch reports as the current content reaches the listeners -------------------------------------------
func watchResyncReachesTheListeners(c *eng.Ctx) {
	p := c.P
	c.Rule("EXHAUSTIVE", "coordinator/discovery.discovery.handlerResourceChange{every watch event type is handled; a re-sync deletes what is gone}", func() {
		f := c.Fn("coordinator/discovery.discovery.handlerResourceChange")
		pk := p.Package("pkg/state")
		if pk == nil {
			c.Undecided("pkg/state not loaded")
		}
		names := constsOfType(pk, "EventType")
		if len(names) < 3 {
			c.Undecided("EventType constants not found")
		}
		// the constants event.Type is compared with (a switch is a chain of comparisons in SSA)
		handled := map[int64]bool{}
		for _, b := range eng.BlocksT(f) {
			for _, in := range b.Instrs {
				bo, ok := in.(*ssa.BinOp)
				if !ok || bo.Op != token.EQL {
					continue
				}
				x, y := bo.X, bo.Y
				if _, isC := eng.ConstInt(x); isC {
					x, y = y, x
				}
				k, isC := eng.ConstInt(y)
				if !isC || !eng.DependsOnField(x, "pkg/state.Event.Type") {
					continue
				}
				handled[k] = true
			}
		}
		for _, n := range names {
			obj := pk.Types.Scope().Lookup(n)
			cst, ok := obj.(*types.Const)
			if !ok {
				continue
			}
			v, _ := constant.Int64Val(cst.Val())
			c.Check(handled[v], "handled:"+n, nil, f,
				"every event type the repository's watch can deliver has a case: EventTypeAll is what a watch sends when it is (re-)established - the CURRENT content of the prefix - and it is the only way deletions and creations that happened while no watch was running (between the initial List and the watch, or during a re-watch after a connection loss / compaction) reach the master; dropped, a node that died in that gap stays 'live' and keeps its leaderships for ever",
				"no case for "+n)
		}
		// the re-sync case reaches OnDelete (for keys that are gone) as well as OnCreate
		allObj, _ := pk.Types.Scope().Lookup("EventTypeAll").(*types.Const)
		if allObj == nil {
			c.Undecided("EventTypeAll not found")
		}
		allV, _ := constant.Int64Val(allObj.Val())
		for _, b := range eng.BlocksT(f) {
			ifi, ok := b.Instrs[len(b.Instrs)-1].(*ssa.If)
			if !ok {
				continue
			}
			bo, ok := eng.Unwrap(ifi.Cond).(*ssa.BinOp)
			if !ok || bo.Op != token.EQL {
				continue
			}
			x, y := bo.X, bo.Y
			if _, isC := eng.ConstInt(x); isC {
				x, y = y, x
			}
			if k, isC := eng.ConstInt(y); !isC || k != allV || !eng.DependsOnField(x, "pkg/state.Event.Type") {
				continue
			}
			first := b.Succs[0].Instrs[0]
			reach := func(method string) bool {
				m := invokeOn(".listener", method)
				if m(p, first) {
					return true
				}
				_, ok := eng.PathExists(eng.PathQuery{Fn: b.Parent(), After: first, Target: func(x ssa.Instruction) bool { return m(p, x) },
					Blocked: func(x ssa.Instruction) bool { return x.Block() == b && x == b.Instrs[0] }})
				return ok
			}
			c.Check(reach("OnDelete") && reach("OnCreate"), "resync-creates-and-deletes", ifi, f,
				"the re-sync case announces both what exists (OnCreate) and what the listeners know but is gone (OnDelete)", fmt.Sprintf("OnDelete reachable: %v, OnCreate reachable: %v", reach("OnDelete"), reach("OnCreate")))
		}
	})
}

// snapshotSameEdges: the CFG edges (in fn and the helpers it enters) on which "the store's current snapshot == other" is established:
// the equal-edge of a comparison of a load of indexKVStore.snapshot with a value accepted by isOther, written in place or inside a
// small predicate helper (isCurrentSnapshot(x) = s.snapshot == x) whose argument is accepted by isOther.
func snapshotSameEdges(p *eng.Prog, fn *ssa.Function, isOther func(ssa.Value) bool) []eng.Edge {
	isSnapLoad := func(v ssa.Value) bool {
		in, ok := eng.Unwrap(v).(ssa.Instruction)
		return ok && eng.LoadField(kvsT+".snapshot")(p, in)
	}
	var out []eng.Edge
	for _, b := range eng.BlocksT(fn) {
		if len(b.Instrs) == 0 {
			continue
		}
		ifi, ok := b.Instrs[len(b.Instrs)-1].(*ssa.If)
		if !ok {
			continue
		}
		cond := ifi.Cond
		neg := false
		for {
			u, isU := cond.(*ssa.UnOp)
			if !isU || u.Op != token.NOT {
				break
			}
			neg, cond = !neg, u.X
		}
		eqEdge := -1
		switch x := cond.(type) {
		case *ssa.BinOp:
			if x.Op != token.EQL && x.Op != token.NEQ {
				break
			}
			a, o := x.X, x.Y
			if !isSnapLoad(a) {
				a, o = o, a
			}
			if isSnapLoad(a) && isOther(o) {
				eqEdge = 0
				if x.Op == token.NEQ {
					eqEdge = 1
				}
			}
		case *ssa.Call:
			h := eng.TransparentCallee(x)
			if h == nil || h.Signature.Results().Len() != 1 {
				break
			}
			// the helper returns exactly "s.snapshot == param" (or !=)
			var cmp *ssa.BinOp
			n := 0
			for _, hb := range h.Blocks {
				for _, hin := range hb.Instrs {
					if r, isR := hin.(*ssa.Return); isR {
						n++
						cmp, _ = eng.Unwrap(r.Results[0]).(*ssa.BinOp)
					}
				}
			}
			if n != 1 || cmp == nil || cmp.Op != token.EQL && cmp.Op != token.NEQ {
				break
			}
			a, o := cmp.X, cmp.Y
			if !isSnapLoad(a) {
				a, o = o, a
			}
			pr, isP := eng.Unwrap(o).(*ssa.Parameter)
			if !isSnapLoad(a) || !isP {
				break
			}
			args := eng.CallArgs(x)
			for i, hp := range h.Params {
				j := i
				if h.Signature.Recv() != nil {
					j = i - 1
				}
				if hp == pr && j >= 0 && j < len(args) && isOther(args[j]) {
					eqEdge = 0
					if cmp.Op == token.NEQ {
						eqEdge = 1
					}
				}
			}
		}
		if eqEdge < 0 {
			continue
		}
		if neg {
			eqEdge = 1 - eqEdge
		}
		out = append(out, eng.Edge{B: b, Succ: eqEdge})
	}
	return out
}

// lookupSnapshotOf: the snapshot a look-up of getOrCreateValue works with - the value it hands to createValue - and the instruction
// that produced it (s.getSnapshot(), or the field read when that accessor is written in place).
func lookupSnapshotOf(c *eng.Ctx) (ssa.Value, ssa.Instruction) {
	g := c.Fn(kvsT + ".getOrCreateValue")
	call := c.One(g, eng.CallTo(kvsT+".createValue"), "createValue call")
	v := eng.CallArgs(call.Instr.(*ssa.Call))[2]
	for _, src := range leafSources(v) {
		if in, ok := src.(ssa.Instruction); ok {
			if cl, isC := src.(*ssa.Call); isC && calleeName(cl) == "getSnapshot" {
				return v, in
			}
			if eng.LoadField(kvsT+".snapshot")(c.P, in) {
				return v, in
			}
		}
	}
	return v, nil
}
