package props

import (
	"fmt"
	"go/constant"
	"go/types"
	"sort"
	"strings"

	"golang.org/x/tools/go/ssa"

	"lincheck/internal/eng"
)

const (
	rrT = "replica.remoteReplicator"
	ptT = "replica.partition"
	rhT = "app/storage/rpc.ReplicaHandler"
)

func init() {
	register(eng.Property{
		ID:    "C08",
		Title: "Replication: a follower's log is a gap-free, byte-identical copy of the leader's",
		Explanation: "Decides the index guards on both sides of the replication channel and the fall-back to the handshake: the follower appends only when the " +
			"received index equals its own next index, and every non-appending return carries an index that cannot equal the request's (its own next index under " +
			"the mismatch fact, or a negative constant); the RPC handler echoes the request index and forwards the append result and error; the leader " +
			"acknowledges only under AckIndex == ReplicaIndex with an empty error, with that index, and every failure path (send, receive, rejection, RPC errors in " +
			"the handshake) stores the failure state before returning so the next round re-handshakes; the ready state is stored only when leader's next " +
			"replica index equals follower's next append index (directly, after a reset RPC to ack+1, or after a reset whose post-condition is re-checked); a reset " +
			"of the leader's replica index never moves it beyond its own append position; the sequence consumed is the one fetched and sent.",
		NotDecided: "bytes on the wire, gRPC delivery, concurrency of two streams into one follower partition, the suspend/resume wake-up race (observations).",
		MinObls:    45,
		Run:        runC08,
	})
}

func constOf(c *eng.Ctx, pkg, name string) int64 {
	pk := c.P.Package(pkg)
	if pk == nil {
		c.Undecided("package %s not loaded", pkg)
	}
	o, ok := pk.Types.Scope().Lookup(name).(*types.Const)
	if !ok {
		c.Undecided("constant %s.%s not found", pkg, name)
	}
	n, _ := constant.Int64Val(o.Val())
	return n
}

// stateStores returns the stores to remoteReplicator.state with the ReplicatorState constant each stores.
func stateStores(c *eng.Ctx, fn *ssa.Function) map[ssa.Instruction]int64 {
	out := map[ssa.Instruction]int64{}
	for _, s := range c.P.Sites(fn, eng.StoreField(rrT+".state")) {
		_, _, call := eng.AtomicOp(s.Instr)
		if call == nil {
			continue
		}
		v := call.Common().Args[1]
		val := int64(-1)
		eng.WalkExpr(v, func(x ssa.Value) bool {
			if a, ok := x.(*ssa.Alloc); ok {
				for _, ref := range *a.Referrers() {
					if fa, ok := ref.(*ssa.FieldAddr); ok && strings.HasSuffix(eng.FieldKeyOfAddr(fa), ".state.state") {
						for _, r2 := range *fa.Referrers() {
							if st, ok := r2.(*ssa.Store); ok {
								if n, ok := eng.ConstInt(st.Val); ok {
									val = n
								}
							}
						}
					}
				}
			}
			return true
		})
		out[s.Instr] = val
	}
	return out
}

// remoteAckOf: where IsReady obtains the follower's last acknowledged index - the helper getLastAckIdxFromReplica (its first
// result) or, when that helper was inlined, the GetReplicaAckIndex RPC (the AckIndex field of its response).  Returns the
// call site and predicates for "is that value" / "is that value + 1".
func remoteAckOf(c *eng.Ctx, f *ssa.Function) (eng.Site, func(ssa.Value) bool, func(ssa.Value) bool) {
	p := c.P
	var site eng.Site
	viaHelper := false
	if hs := p.Sites(f, eng.CallTo(rrT+".getLastAckIdxFromReplica")); len(hs) == 1 {
		site, viaHelper = hs[0], true
	} else {
		site = c.One(f, invokeOn(".replicaCli", "GetReplicaAckIndex"), "the follower's ack index (getLastAckIdxFromReplica / replicaCli.GetReplicaAckIndex)")
	}
	isRemote := func(v ssa.Value) bool {
		v = eng.Unwrap(v)
		if viaHelper {
			e, ok := v.(*ssa.Extract)
			return ok && e.Tuple == site.Instr.(ssa.Value) && e.Index == 0
		}
		// resp.AckIndex of this call's response
		u, ok := v.(*ssa.UnOp)
		if !ok {
			return false
		}
		fa, ok := u.X.(*ssa.FieldAddr)
		if !ok || !strings.HasSuffix(eng.FieldKeyOfAddr(fa), ".AckIndex") {
			return false
		}
		e, ok := eng.Unwrap(fa.X).(*ssa.Extract)
		return ok && e.Tuple == site.Instr.(ssa.Value) && e.Index == 0
	}
	isNext := func(v ssa.Value) bool {
		base, k := eng.SplitConstOffset(eng.Unwrap(v))
		return k == 1 && isRemote(base)
	}
	return site, isRemote, isNext
}

func runC08(c *eng.Ctx) {
	p := c.P
	c.Rule("PASS", qT+".SetAppendedSeq{appended = acknowledged = seq on every path}", func() { resetLeavesEmptyQueue(c) }) // C08-m21: shared with C05/C06
	handshakeBaselineIsTheGroupAck(c)
	livenessRecheckedAfterTheSuspendMark(c)
	rewindOnlyWithinWhatTheLeaderHolds(c)
	getRefusesNothingTheAppendAdmitted(c)
	rewindToTheAckIsAccepted(c)
	putPublicationOrder(c)
	ready := constOf(c, "models", "ReplicatorReadyState")
	failure := constOf(c, "models", "ReplicatorFailureState")

	// ---- 1c. the follower's next-index test and its append are one critical section -----------------------------------
	// (the leader abandons a stream after a Recv error without waiting for the server side and re-sends the position on a new
	// stream: two handler goroutines can offer the same position to one follower partition at once - F45)
	replicaLogTestAndAppendAtomic(c)

	// ---- 1/2. follower side ---------------------------------------------------------------------------
	c.Rule("GUARD", ptT+".ReplicaLog", func() {
		f := c.Fn(ptT + ".ReplicaLog")
		facts := p.MustFacts(f)
		put := c.One(f, invokeOn("", "Put"), "Queue().Put(msg)")
		fs := facts.At(put.Instr)
		isNext := func(d string, _ ssa.Value) bool { return strings.HasSuffix(d, "AppendedSeq()+1)") }
		eq := facts.Find(fs, "eq", eng.DescIs("replicaIdx"), isNext)
		c.Check(len(eq) > 0, "append-only-at-next-index", put.Instr, f, "the follower appends a message only when its index equals the follower's own next index (no holes, no overwrite)", "facts: "+strings.Join(facts.Render(fs), " ; "))
		c.Check(p.Desc(eng.CallArgs(put.Instr.(*ssa.Call))[0]) == "msg", "appends-the-message", put.Instr, f, "the appended bytes are the received record", "")
		// classify every return: the request's index can only come back after a successful append
		mismatch := eng.EdgesWithFact(f, func(ft eng.Fact) bool {
			return ft.Op == "ne" && ft.Y != nil && (p.Desc(ft.X) == "replicaIdx" && isNext(p.Desc(ft.Y), ft.Y) || p.Desc(ft.Y) == "replicaIdx" && isNext(p.Desc(ft.X), ft.X))
		})
		putOK, _ := eng.ErrCheckEdges(f, put.Instr.(ssa.Value))
		c.Check(len(mismatch) > 0 && len(putOK) > 0, "branches", put.Instr, f, "ReplicaLog branches on index mismatch and on the result of Put", fmt.Sprintf("%d mismatch edges, %d put-ok edges", len(mismatch), len(putOK)))
		n := 0
		// the returns to classify: those of ReplicaLog, and - when ReplicaLog ends with a call of the helper that holds the test
		// and the append (return p.appendLocked(idx, msg)) - the helper's returns in place of that tail call
		body := put.Instr.Parent()
		var rets []*ssa.Return
		bodies := []*ssa.Function{f}
		if body != f {
			bodies = append(bodies, body)
		}
		for _, g := range bodies {
			for _, b := range g.Blocks {
				if b == g.Recover {
					continue
				}
				for _, in := range b.Instrs {
					r, ok := in.(*ssa.Return)
					if !ok {
						continue
					}
					if g == f && body != f {
						if ex, isE := eng.Unwrap(eng.RetVal(r, 0)).(*ssa.Extract); isE {
							if cl, isC := ex.Tuple.(*ssa.Call); isC && eng.TransparentCallee(cl) == body {
								continue // the tail call: replaced by the helper's own returns
							}
						}
					}
					rets = append(rets, r)
				}
			}
		}
		for _, r := range rets {
			{
				in := ssa.Instruction(r)
				f := r.Parent()
				n++
				v := eng.RetVal(r, 0)
				if k, isC := eng.ConstInt(v); isC && k < 0 {
					c.Check(true, fmt.Sprintf("return[%d]", n), r, f, "a failing return yields a negative constant (can not equal a request's index)", "")
					continue
				}
				// own next index: reachable only through the mismatch outcome or through a successful Put
				_, sneaks := eng.PathExists(eng.PathQuery{Fn: f, Target: func(x ssa.Instruction) bool { return x == in },
					Edge: eng.ForbidEdges(append(append([]eng.Edge{}, mismatch...), putOK...))})
				c.Check(isNext(p.Desc(v), v) && !sneaks, fmt.Sprintf("return[%d]", n), r, f,
					"a return of ReplicaLog yields the follower's own next index, and is reached only under an index mismatch (then it differs from the request's) or after a successful append (then it is the appended index)",
					fmt.Sprintf("returns %s; reachable without mismatch and without a successful Put: %v", p.Desc(v), sneaks))
			}
		}
		if n < 3 {
			c.Undecided("ReplicaLog has %d returns, expected >= 3", n)
		}
	})
	c.Rule("PROV", rhT+".Replica{echo}", func() {
		f := c.Fn(rhT + ".Replica")
		rl := c.One(f, invokeOn("", "ReplicaLog"), "p.ReplicaLog(req.ReplicaIndex, req.Record)")
		a := eng.CallArgs(rl.Instr.(*ssa.Call))
		c.Check(strings.HasSuffix(p.Desc(a[0]), ".ReplicaIndex") && strings.HasSuffix(p.Desc(a[1]), ".Record"), "log-args", rl.Instr, f, "the handler appends the request's record at the request's index", p.Desc(a[0])+", "+p.Desc(a[1]))
		pb := "proto/gen/v1/replica.ReplicaResponse."
		for _, s := range c.Some(f, eng.StoreField(pb+"ReplicaIndex"), "resp.ReplicaIndex =") {
			v, _ := storedValue(s.Instr)
			fromRecv := eng.DependsOn(v, func(x ssa.Value) bool {
				cl, ok := x.(*ssa.Call)
				return ok && cl.Common().IsInvoke() && cl.Common().Method.Name() == "Recv"
			})
			c.Check(strings.HasSuffix(p.Desc(v), ".ReplicaIndex") && fromRecv, "echo-request-index", s.Instr, f, "the response echoes the index of the request just received", "stores "+p.Desc(v))
		}
		for _, s := range c.Some(f, eng.StoreField(pb+"AckIndex"), "resp.AckIndex =") {
			v, _ := storedValue(s.Instr)
			e, ok := v.(*ssa.Extract)
			c.Check(ok && e.Tuple == rl.Instr.(ssa.Value) && e.Index == 0, "ack-is-append-result", s.Instr, f, "the response's ack index is ReplicaLog's first result", "stores "+p.Desc(v))
		}
		for _, s := range c.Some(f, eng.StoreField(pb+"Err"), "resp.Err =") {
			v, _ := storedValue(s.Instr)
			c.Check(eng.DependsOn(v, func(x ssa.Value) bool {
				e, ok := x.(*ssa.Extract)
				return ok && e.Tuple == rl.Instr.(ssa.Value) && e.Index == 1
			}), "error-forwarded", s.Instr, f, "an append error is reported in the response", "stores "+p.Desc(v))
		}
		_, errEdges := eng.ErrCheckEdges(f, rl.Instr.(ssa.Value))
		errSt := p.Sites(f, eng.StoreField(pb+"Err"))
		send := c.Some(f, invokeOn("server", "Send"), "server.Send(resp)")
		// on the error edge the Err field is set before sending
		for _, e := range errEdges {
			first := e.B.Succs[e.Succ].Instrs[0]
			_, skip := eng.PathExists(eng.PathQuery{Fn: f, After: first, Target: func(in ssa.Instruction) bool { return instrIn(in, send) }, Blocked: func(in ssa.Instruction) bool { return instrIn(in, errSt) }})
			if instrIn(first, errSt) {
				skip = false
			}
			c.Check(!skip, "error-set-before-send", first, f, "when the append failed, the error is set before the response is sent", "")
		}
		// Reset / GetReplicaAckIndex
		rs := c.Fn(rhT + ".Reset")
		rc := c.One(rs, invokeOn("", "ResetReplicaIndex"), "p.ResetReplicaIndex")
		c.Check(strings.HasSuffix(p.Desc(eng.CallArgs(rc.Instr.(*ssa.Call))[0]), ".AppendIndex"), "reset-to-requested", rc.Instr, rs, "the follower resets its append index to the requested one", "")
		pr := c.Fn(ptT + ".ResetReplicaIndex")
		sa := c.One(pr, invokeOn(".log", "SetAppendedSeq"), "log.SetAppendedSeq")
		c.Check(p.Desc(eng.CallArgs(sa.Instr.(*ssa.Call))[0]) == "(idx-1)", "next-index-means-appended+1", sa.Instr, pr, "resetting the next index to idx sets appended to idx-1", "sets "+p.Desc(eng.CallArgs(sa.Instr.(*ssa.Call))[0]))
		ga := c.Fn(ptT + ".ReplicaAckIndex")
		for _, r := range eng.SuccessReturns(ga) {
			c.Check(strings.HasSuffix(p.Desc(eng.RetVal(r, 0)), "AppendedSeq()"), "ack-index-is-appended", r, ga, "the follower reports its appended sequence as last ack", "returns "+p.Desc(eng.RetVal(r, 0)))
		}
	})

	// ---- 4/5. leader: ack only on a confirmed append, every failure path drops to not-ready -----------------
	c.Rule("GUARD", rrT+".Replica", func() {
		f := c.Fn(rrT + ".Replica")
		facts := p.MustFacts(f)
		sts := stateStores(c, f)
		var failStores []eng.Site
		for in, v := range sts {
			c.Check(v != ready, "no-ready-in-Replica:"+p.InstrPos(in), in, f, "Replica never marks the channel ready", "")
			if v == failure {
				failStores = append(failStores, eng.Site{Fn: f, Instr: in})
			}
		}
		ack := c.One(f, eng.CallTo(rpT+".SetAckIndex"), "SetAckIndex")
		fs := facts.At(ack.Instr)
		pb := ".AckIndex"
		eq := facts.Find(fs, "eq", eng.DescSuffix(pb), eng.DescSuffix(".ReplicaIndex"))
		noErr := facts.Find(fs, "eq", eng.DescSuffix(".Err"), eng.DescIs(`""`))
		c.Check(len(eq) > 0, "ack-only-on-echo-equality", ack.Instr, f, "the leader acknowledges only when the follower's ack index equals the index it was sent", "facts: "+strings.Join(facts.Render(fs), " ; "))
		c.Check(len(noErr) > 0, "ack-only-without-error", ack.Instr, f, "the leader acknowledges only when the follower reported no error", "facts: "+strings.Join(facts.Render(fs), " ; "))
		av := eng.CallArgs(ack.Instr.(*ssa.Call))[0]
		c.Check(strings.HasSuffix(p.Desc(av), ".AckIndex") || strings.HasSuffix(p.Desc(av), ".ReplicaIndex") || p.Desc(av) == "idx", "acks-that-index", ack.Instr, f, "the acknowledged index is the confirmed one", "acks "+p.Desc(av))
		send := c.One(f, invokeOn("", "Send"), "stream.Send")
		recv := c.One(f, invokeOn("", "Recv"), "stream.Recv")
		c.Check(eng.DominatedBy(f, ack.Instr, []eng.Site{recv}, nil) && eng.DominatedBy(f, recv.Instr, []eng.Site{send}, nil), "send<recv<ack", ack.Instr, f, "ack follows the response to this request", "")
		okr, why := eng.OkDominates(f, recv.Instr, ack.Instr)
		c.Check(okr, "ack-only-after-successful-recv", ack.Instr, f, "ack only after a response was received", why)
		// request carries (idx, msg)
		req := eng.CallArgs(send.Instr.(*ssa.Call))[0]
		okReq := 0
		eng.WalkExpr(req, func(x ssa.Value) bool {
			if a, ok := x.(*ssa.Alloc); ok {
				for _, ref := range *a.Referrers() {
					if fa, ok := ref.(*ssa.FieldAddr); ok {
						for _, r2 := range *fa.Referrers() {
							if st, ok := r2.(*ssa.Store); ok {
								k := eng.FieldKeyOfAddr(fa)
								if strings.HasSuffix(k, ".ReplicaIndex") && p.Desc(st.Val) == "idx" {
									okReq++
								}
								if strings.HasSuffix(k, ".Record") && p.Desc(st.Val) == "msg" {
									okReq++
								}
							}
						}
					}
				}
			}
			return true
		})
		c.Check(okReq == 2, "request-carries-idx-and-msg", send.Instr, f, "the request sent carries the consumed index and its message", "")
		// failure paths
		for _, call := range []eng.Site{send, recv} {
			_, errEdges := eng.ErrCheckEdges(f, call.Instr.(ssa.Value))
			if len(errEdges) == 0 {
				c.Check(false, "error-checked:"+shortInstr(p, call.Instr), call.Instr, f, "the stream error is checked", "no nil test of the error")
				continue
			}
			for _, e := range errEdges {
				first := e.B.Succs[e.Succ].Instrs[0]
				_, escapes := eng.PathExists(eng.PathQuery{Fn: f, After: first, Target: func(in ssa.Instruction) bool { _, ok := in.(*ssa.Return); return ok },
					Blocked: func(in ssa.Instruction) bool { return instrIn(in, failStores) }})
				if instrIn(first, failStores) {
					escapes = false
				}
				c.Check(!escapes, "failure-state-on-error:"+shortInstr(p, call.Instr), first, f, "a stream failure stores the failure state before returning (the next round re-handshakes)", "an error path returns without storing ReplicatorFailureState")
			}
		}
		// a response that is not an ack also drops to not-ready
		neq := eng.EdgesWithFact(f, func(ft eng.Fact) bool {
			if ft.Op != "eq" || ft.Y == nil {
				return false
			}
			dx, dy := p.Desc(ft.X), p.Desc(ft.Y)
			return strings.HasSuffix(dx, ".AckIndex") && strings.HasSuffix(dy, ".ReplicaIndex") || strings.HasSuffix(dy, ".AckIndex") && strings.HasSuffix(dx, ".ReplicaIndex") ||
				strings.HasSuffix(dx, ".Err") || strings.HasSuffix(dy, ".Err")
		})
		// paths after Recv that avoid the ack must store failure: search from recv to return avoiding ack and failure stores
		_, quiet := eng.PathExists(eng.PathQuery{Fn: f, After: recv.Instr, Target: func(in ssa.Instruction) bool { _, ok := in.(*ssa.Return); return ok },
			Blocked: func(in ssa.Instruction) bool { return in == ack.Instr || instrIn(in, failStores) }})
		_ = neq
		c.Check(!quiet, "rejection-drops-to-not-ready", recv.Instr, f, "a response that does not acknowledge the sent index stores the failure state (so the channel resynchronises from the follower's append index)", "a path after Recv neither acknowledges nor stores the failure state")
	})

	// ---- 6. handshake ------------------------------------------------------------------------------------------------
	c.Rule("GUARD", rrT+".IsReady", func() {
		f := c.Fn(rrT + ".IsReady")
		facts := p.MustFacts(f)
		sts := stateStores(c, f)
		var failStores, readyStores []eng.Site
		for in, v := range sts {
			if v == failure {
				failStores = append(failStores, eng.Site{Fn: f, Instr: in})
			}
			if v == ready {
				readyStores = append(readyStores, eng.Site{Fn: f, Instr: in})
			}
		}
		if len(readyStores) < 3 || len(failStores) < 4 {
			c.Undecided("IsReady: %d ready stores, %d failure stores (expected >=3, >=4)", len(readyStores), len(failStores))
		}
		lastAck, isRemoteV, isRemoteNextV := remoteAckOf(c, f)
		isRemoteNext := func(d string, v ssa.Value) bool {
			return isRemoteNextV(v) || strings.Contains(d, "getLastAckIdxFromReplica()#0+1)")
		}
		isLocalReplica := func(_ string, v ssa.Value) bool {
			cl, ok := v.(*ssa.Call)
			return ok && inList(strings.Join(p.CalleeKeys(cl), ""), []string{rpT + ".ReplicaIndex"})
		}
		resetRPC := p.Sites(f, invokeOn(".replicaCli", "Reset"))
		for i, s := range readyStores {
			fs := facts.At(s.Instr)
			aligned := facts.Find(fs, "eq", isRemoteNext, isLocalReplica)
			aligned2 := facts.Find(fs, "eq", isLocalReplica, isRemoteNext)
			viaReset := false
			detail := "facts: " + strings.Join(facts.Render(fs), " ; ")
			if len(aligned)+len(aligned2) == 0 && len(resetRPC) == 1 {
				okRPC, _ := eng.OkDominates(f, resetRPC[0].Instr, s.Instr)
				// follower reset to v and leader reset to the same v, v = ack+1
				var reqV ssa.Value
				eng.WalkExpr(eng.CallArgs(resetRPC[0].Instr.(*ssa.Call))[1], func(x ssa.Value) bool {
					if a, ok := x.(*ssa.Alloc); ok {
						for _, ref := range *a.Referrers() {
							if fa, ok := ref.(*ssa.FieldAddr); ok && strings.HasSuffix(eng.FieldKeyOfAddr(fa), ".AppendIndex") {
								for _, r2 := range *fa.Referrers() {
									if st, ok := r2.(*ssa.Store); ok {
										reqV = st.Val
									}
								}
							}
						}
					}
					return true
				})
				var local eng.Site
				for _, r := range p.Sites(f, eng.CallTo(rpT+".ResetReplicaIndex")) {
					if eng.DominatedBy(f, s.Instr, []eng.Site{r}, nil) && eng.DominatedBy(f, r.Instr, resetRPC, nil) {
						local = r
					}
				}
				if okRPC && reqV != nil && local.Instr != nil && eng.CallArgs(local.Instr.(*ssa.Call))[0] == reqV {
					d := p.Desc(reqV)
					// the same through a helper that is handed the leader's ack: judged on the argument IsReady passes
					base, k1 := eng.SplitConstOffset(eng.Unwrap(reqV))
					base = eng.Unwrap(eng.UpParamVia(f, resetRPC[0], base))
					bn := calleeName(base)
					if strings.HasSuffix(d, "AckIndex()+1)") || strings.HasSuffix(d, ".acknowledgedSeq+1)") || strings.Contains(d, "AcknowledgedSeq()+1)") ||
						k1 == 1 && (bn == "AckIndex" || bn == "AcknowledgedSeq") {
						viaReset = true
					} else {
						detail = "both sides are reset to " + d + ", which is not the leader's ack+1 (the first position the follower lacks and the leader still holds)"
					}
				} else {
					detail = "ready after a reset RPC, but leader and follower are not reset to the same value / RPC result unchecked"
				}
			}
			c.Check(len(aligned)+len(aligned2) > 0 || viaReset, fmt.Sprintf("ready-only-when-aligned[%d]", i), s.Instr, f,
				"the channel becomes ready only when the leader's next replica index equals the follower's next append index (compared directly, or both reset to the leader's ack+1 by a successful reset RPC)", detail)
		}
		// every RPC error edge stores failure and returns false
		var rpcs []eng.Site
		for _, s := range p.Sites(f, eng.Any(invokeOn(".cliFct", "CreateReplicaServiceClient"), eng.CallTo(rrT+".getLastAckIdxFromReplica"), invokeOn(".replicaCli", "Reset"), invokeOn(".replicaCli", "GetReplicaAckIndex"))) {
			// the ack RPC inside the helper is represented by the call of the helper
			if g := s.Instr.Parent(); g != nil && p.FuncKey(g) == rrT+".getLastAckIdxFromReplica" {
				continue
			}
			rpcs = append(rpcs, s)
		}
		if len(rpcs) < 3 {
			c.Undecided("expected 3 fallible calls in IsReady, found %d", len(rpcs))
		}
		for _, call := range rpcs {
			_, errEdges := eng.ErrCheckEdges(f, call.Instr.(ssa.Value))
			c.Check(len(errEdges) > 0, "error-checked:"+shortInstr(p, call.Instr), call.Instr, f, "the handshake step's error is checked", "")
			for _, e := range errEdges {
				first := e.B.Succs[e.Succ].Instrs[0]
				_, escapes := eng.PathExists(eng.PathQuery{Fn: f, After: first, Target: func(in ssa.Instruction) bool { _, ok := in.(*ssa.Return); return ok },
					Blocked: func(in ssa.Instruction) bool { return instrIn(in, failStores) }})
				c.Check(!escapes, "failure-state-on-error:"+shortInstr(p, call.Instr), first, f, "a failed handshake step stores the failure state", "")
				// and returns false: no ready store reachable
				_, rdy := eng.PathExists(eng.PathQuery{Fn: f, After: first, Target: func(in ssa.Instruction) bool { return instrIn(in, readyStores) }})
				c.Check(!rdy, "no-ready-after-error:"+shortInstr(p, call.Instr), first, f, "a failed handshake step never ends ready", "")
			}
		}
		// `return true` only when state was ready at entry or a ready store dominates
		for i, r := range eng.SuccessReturns(f) {
			v := eng.RetVal(r, 0)
			if cv, ok := v.(*ssa.Const); ok && cv.Value != nil && cv.Value.String() == "true" {
				fs := facts.At(r)
				was := facts.Find(fs, "eq", eng.DescSuffix(".state"), func(d string, _ ssa.Value) bool { return d == fmt.Sprint(ready) })
				c.Check(len(was) > 0 || eng.DominatedBy(f, r, readyStores, nil), fmt.Sprintf("true-only-when-ready[%d]", i), r, f, "IsReady returns true only when the state is (now) ready", "")
			}
		}
		// resets of the leader's replica index never move it beyond its own append position
		_ = lastAck
		rappend := p.Sites(f, eng.CallTo(rpT+".ResetAppendIndex"))
		isRemote := isRemoteV
		isAppendNext := func(v ssa.Value) bool {
			cl, ok := v.(*ssa.Call)
			return ok && inList(strings.Join(p.CalleeKeys(cl), ""), []string{rpT + ".AppendIndex"})
		}
		within := eng.EdgesWithFact(f, func(ft eng.Fact) bool {
			// remote < appendIdx (= appended+1)  <=>  remote+1 <= appended+1: next replica index within the leader's log
			return ft.Op == "lt" && isRemote(ft.X) && isAppendNext(ft.Y)
		})
		for i, r := range p.Sites(f, eng.CallTo(rpT+".ResetReplicaIndex")) {
			a := eng.CallArgs(r.Instr.(*ssa.Call))[0]
			if !isRemoteNext(p.Desc(a), a) {
				continue // the reset-RPC branch: value is ack+1 <= appended+1 by C06
			}
			// every path to this reset either re-based the leader's append index onto the follower's, or established remote < appended+1
			_, bad := eng.PathExists(eng.PathQuery{Fn: f, Target: func(in ssa.Instruction) bool { return in == r.Instr },
				Blocked: func(in ssa.Instruction) bool { return instrIn(in, rappend) },
				Edge: func(b *ssa.BasicBlock, s int) bool {
					// forbid the edges that establish the fact; if the target is still reachable, some path lacks it
					for _, e := range within {
						if e.B == b && e.Succ == s {
							return false
						}
					}
					return true
				}})
			c.Check(len(within) > 0 && !bad, fmt.Sprintf("replica-index-within-log[%d]", i), r.Instr, f,
				"the leader's replica index is moved to follower-ack+1 only when that position is within the leader's own log (follower-ack < leader's next append index) or after the leader's append index was re-based onto the follower's",
				"a path resets the replica index to follower-ack+1 although follower-ack may equal the leader's next append index (the leader lost exactly one tail message): consumed would exceed appended and the next append is never sent")
		}
		for i, r := range rappend {
			a := eng.CallArgs(r.Instr.(*ssa.Call))[0]
			c.Check(isRemoteNext(p.Desc(a), a), fmt.Sprintf("rebase-to-follower-next[%d]", i), r.Instr, f, "when the leader lost its log tail its append index is re-based to the follower's next index", "rebased to "+p.Desc(a))
		}
	})
	c.Rule("GUARD", rrT+".Connect", func() {
		f := c.Fn(rrT + ".Connect")
		sts := stateStores(c, f)
		mk := c.One(f, invokeOn(".replicaCli", "Replica"), "replicaCli.Replica(ctx)")
		for in, v := range sts {
			if v == ready {
				ok, why := eng.OkDominates(f, mk.Instr, in)
				c.Check(ok, "ready-after-stream", in, f, "Connect marks ready only after the stream was created", why)
			}
		}
		// a re-synchronisation never re-uses the stream of the failed period: the handshake drops it before it can report ready
		// (the follower binds its partition once per stream; a stream that survived a rejection would be rejected forever)
		ir := c.Fn(rrT + ".IsReady")
		cs := c.Some(ir, eng.CallTo(rrT+".closeStream"), "r.closeStream()")
		nReady := 0
		var readyStores []ssa.Instruction
		for in, v := range stateStores(c, ir) {
			if v == ready {
				readyStores = append(readyStores, in)
			}
		}
		sort.Slice(readyStores, func(i, j int) bool { return readyStores[i].Pos() < readyStores[j].Pos() })
		for _, in := range readyStores {
			{
				nReady++
				c.Check(eng.DominatedBy(ir, in, cs, nil), fmt.Sprintf("handshake-drops-the-old-stream[%d]", nReady), in, ir, "every path of the handshake that ends in Ready passed closeStream()", "Ready reachable without closing the previous stream")
			}
		}
		c.Check(nReady >= 3, "handshake-ready-exits", nil, ir, "the handshake has its three Ready exits", fmt.Sprintf("%d", nReady))
		csf := c.Fn(rrT + ".closeStream")
		nilStore := false
		for _, st := range p.Sites(csf, eng.StoreField(rrT+".replicaStream")) {
			if v, _ := storedValue(st.Instr); v != nil && eng.IsNilConst(v) {
				nilStore = true
			}
		}
		c.Check(nilStore, "close-forgets-the-stream", nil, csf, "closeStream forgets the stream (Connect then creates a new one)", "")
		first := c.Fn(rrT + ".Connect")
		c.Check(len(p.Sites(first, eng.LoadField(rrT+".replicaStream"))) > 0, "connect-reuses-only-a-live-stream", nil, first, "Connect re-uses a stream only while one is remembered", "")
		owner(c, "store of remoteReplicator.state", eng.StoreField(rrT+".state"),
			[]string{"replica.NewRemoteReplicator", rrT + ".Connect", rrT + ".IsReady", rrT + ".Replica"}, 10)
	})

	// ---- 7. the consumed sequence is the one fetched and sent ------------------------------------------------------------
	c.Rule("PROV", ptT+".replica{consume->get->send}", func() {
		f := c.Fn(ptT + ".replica")
		cons := c.One(f, invokeOn("replicator", "Consume"), "replicator.Consume()")
		get := c.One(f, invokeOn("replicator", "GetMessage"), "replicator.GetMessage(seq)")
		snd := c.One(f, invokeOn("replicator", "Replica"), "replicator.Replica(seq, data)")
		ign := c.One(f, invokeOn("replicator", "IgnoreMessage"), "replicator.IgnoreMessage(seq)")
		c.Check(eng.CallArgs(get.Instr.(*ssa.Call))[0] == cons.Instr.(ssa.Value), "get-consumed", get.Instr, f, "the message fetched is the consumed sequence", "")
		a := eng.CallArgs(snd.Instr.(*ssa.Call))
		c.Check(a[0] == cons.Instr.(ssa.Value) && eng.DerivesFromCall(a[1], get.Instr.(ssa.Value), 0), "send-consumed-with-its-data", snd.Instr, f, "the message is sent under its own sequence with the bytes fetched for it", "")
		c.Check(eng.CallArgs(ign.Instr.(*ssa.Call))[0] == cons.Instr.(ssa.Value), "ignore-consumed", ign.Instr, f, "only the consumed sequence can be ignored", "")
		okg, why := eng.OkDominates(f, get.Instr, snd.Instr)
		c.Check(okg, "send-only-fetched", snd.Instr, f, "a message is sent only when it could be fetched", why)
		facts := p.MustFacts(f)
		fs := facts.At(get.Instr)
		c.Check(facts.Prove("le", zeroLike(cons.Instr.(ssa.Value)), cons.Instr.(ssa.Value), get.Instr), "nonneg", get.Instr, f, "nothing is fetched for the no-message sentinel", strings.Join(facts.Render(fs), " ; "))
		rdy := c.One(f, invokeOn("replicator", "IsReady"), "replicator.IsReady()")
		te, fe := eng.BoolCheckEdges(f, rdy.Instr.(ssa.Value))
		_ = te
		_, via := eng.PathExists(eng.PathQuery{Fn: f, After: rdy.Instr, Target: func(in ssa.Instruction) bool { return in == cons.Instr },
			Edge: func(b *ssa.BasicBlock, s int) bool {
				for _, e := range fe {
					if e.B == b && e.Succ != s {
						return false
					}
				}
				return true
			}})
		c.Check(len(fe) > 0 && !via, "consume-only-when-ready", cons.Instr, f, "nothing is consumed while the channel is not ready", "")
	})

	// ---- 7b. index <-> sequence conversions of the replicator are inverse to each other --------------------------------------------------
	c.Rule("SYMMETRY", rpT+"{index = sequence + k: getter and resetter agree}", func() {
		for _, pr := range []struct{ get, getCallee, set, setCallee string }{
			{rpT + ".AppendIndex", "AppendedSeq", rpT + ".ResetAppendIndex", "SetAppendedSeq"},
			{rpT + ".ReplicaIndex", "ConsumedSeq", rpT + ".ResetReplicaIndex", "SetConsumedSeq"},
		} {
			g := c.Fn(pr.get)
			st := c.Fn(pr.set)
			var kg, ks int64
			okg, oks := false, false
			for _, r := range eng.SuccessReturns(g) {
				base, k := eng.SplitConstOffset(eng.RetVal(r, 0))
				if cl, ok := base.(*ssa.Call); ok && (cl.Common().IsInvoke() && cl.Common().Method.Name() == pr.getCallee) {
					kg, okg = k, true
				}
			}
			sc := c.One(st, invokeOn("", pr.setCallee), pr.setCallee+"(idx + k)")
			base, k := eng.SplitConstOffset(eng.CallArgs(sc.Instr.(*ssa.Call))[0])
			if len(st.Params) > 1 && base == ssa.Value(st.Params[1]) {
				ks, oks = k, true
			}
			c.Check(okg && oks, pr.get+":shape", sc.Instr, st, pr.get+" returns "+pr.getCallee+"()+k and "+pr.set+" stores idx+k'", fmt.Sprintf("getter ok=%v setter ok=%v", okg, oks))
			c.Check(okg && oks && kg+ks == 0, pr.get+":inverse", sc.Instr, st,
				"resetting to index i makes the getter return i again (k + k' = 0): a reset to the follower's index does not skip or repeat a position", fmt.Sprintf("getter +%d, setter %+d", kg, ks))
		}
		// the ack index is a sequence on both sides (no offset)
		ag := c.Fn(rpT + ".AckIndex")
		for i, r := range eng.SuccessReturns(ag) {
			_, k := eng.SplitConstOffset(eng.RetVal(r, 0))
			c.Check(k == 0, fmt.Sprintf("ack-index-is-the-acknowledged-sequence[%d]", i), r, ag, "AckIndex is the acknowledged sequence itself", fmt.Sprintf("offset %d", k))
		}
		as := c.Fn(rpT + ".SetAckIndex")
		ac := c.One(as, invokeOn("", "Ack"), "ConsumerGroup.Ack(ackIdx)")
		c.Check(len(as.Params) > 1 && eng.CallArgs(ac.Instr.(*ssa.Call))[0] == ssa.Value(as.Params[1]), "set-ack-passes-the-index", ac.Instr, as, "SetAckIndex acknowledges exactly the given sequence", "")
	})

	// ---- 8. the leader's read barrier / GC barrier is the minimum over the followers' ACKNOWLEDGED positions (shared with C06):
	// a consumed-but-unacknowledged position must stay readable so that a rewind after a fault can re-send it
	c.Rule("PROV", "pkg/queue.fanOutQueue.Sync{min-over-all-groups}", func() { syncRule(c) })

	c.Rule("GUARD", "pkg/queue.queue.persistMetaOfMessage{cached index page = page of the sequence}", func() { cachedIndexPageRule(c) })
	c.Rule("OWNER", "replica{SetAckIndex}", func() { setAckIndexOwner(c) })
	// a handshake never trusts the connection of the failed period: the client is obtained from the factory again (a node failure
	// closes and drops the pooled connection; a follower may come back on another address)
	c.Rule("ORDER", rrT+".IsReady{the handshake obtains its client from the factory}", func() {
		f := c.Fn(rrT + ".IsReady")
		mk := c.Some(f, invokeOn(".cliFct", "CreateReplicaServiceClient"), "cliFct.CreateReplicaServiceClient(node)")
		hs, _, _ := remoteAckOf(c, f)
		for i, g := range []eng.Site{hs} {
			c.Check(eng.DominatedBy(f, g.Instr, mk, nil), fmt.Sprintf("client-before-handshake[%d]", i), g.Instr, f,
				"every handshake is made over a client taken from the factory in this very handshake", "a path reaches the handshake with the client of an earlier period")
		}
		st := c.Some(f, eng.StoreField(rrT+".replicaCli"), "r.replicaCli = client")
		for i, s := range st {
			c.Check(eng.DerivesFromCall(s.Instr.(*ssa.Store).Val, mk[0].Instr.(ssa.Value), 0), fmt.Sprintf("client-is-the-new-one[%d]", i), s.Instr, f, "the client kept for the stream is the one just obtained", "")
		}
	})
	c.Rule("ORDER", "pkg/queue.NewConsumerGroup{meta probed before the page is created}", func() { existenceProbedBeforeCreate(c, "pkg/queue.NewConsumerGroup", "") })

	// ---- the leader's log of a family is dropped only when EVERY follower's group is drained --------------------------------------
	c.Rule("GUARD", "replica.partition.IsExpire{every group drained}", func() { expiryNeedsEveryGroupDrained(c) })
	c.Rule("PROV", "pkg/queue.consumerGroup.IsEmpty{appended <= acknowledged}", func() { groupEmptyMeansAcknowledged(c) })

	// ---- one cached partition per log directory ---------------------------------------------------------------------------------------
	// ---- the registry of family logs is replaced in the hold in which it was read ----------------------------------------------
	// (a partition registered between the read and the replacement would be dropped from the registry while a write stream keeps
	// using it; the next look-up opens a second partition over the same files, with its own append position)
	walRegistryReplacedInOneHold(c)

	c.Rule("LAYOUT", "replica.writeAheadLog.GetOrCreatePartition{cache key names what the log directory names}", func() {
		f := c.Fn("replica.writeAheadLog.GetOrCreatePartition")
		open := c.One(f, func(_ *eng.Prog, in ssa.Instruction) bool {
			cl, ok := in.(*ssa.Call)
			if !ok {
				return false
			}
			u, ok := cl.Common().Value.(*ssa.UnOp)
			if !ok {
				return false
			}
			g, ok := u.X.(*ssa.Global)
			return ok && g.Name() == "newFanOutQueue"
		}, "newFanOutQueue(dirPath, …)")
		dir := eng.CallArgs(open.Instr.(ssa.CallInstruction))[0]
		inKey := map[*ssa.Parameter]bool{}
		nf := 0
		for _, b := range eng.BlocksT(f) {
			for _, in := range b.Instrs {
				st, ok := in.(*ssa.Store)
				if !ok {
					continue
				}
				fa, ok := st.Addr.(*ssa.FieldAddr)
				if !ok || !strings.HasPrefix(eng.FieldKeyOfAddr(fa), "replica.partitionKey.") {
					continue
				}
				nf++
				for _, pr := range f.Params[1:] {
					if eng.DependsOn(st.Val, func(x ssa.Value) bool { return x == ssa.Value(pr) }) {
						inKey[pr] = true
					}
				}
			}
		}
		c.Check(nf >= 2, "key-built", nil, f, "the partition cache key is built in GetOrCreatePartition", fmt.Sprintf("%d key fields set", nf))
		nd := 0
		for _, pr := range f.Params[1:] {
			pr := pr
			if !eng.DependsOn(dir, func(x ssa.Value) bool { return x == ssa.Value(pr) }) {
				continue
			}
			nd++
			c.Check(inKey[pr], "key-has:"+pr.Name(), open.Instr, f,
				"every parameter that selects the log directory ("+pr.Name()+") is part of the cache key: two leaders' logs of one family are different logs with their own sequence spaces",
				"the directory depends on "+pr.Name()+" but the key under which the opened log is cached does not")
		}
		c.Check(nd >= 3, "dir-params", open.Instr, f, "the log directory is selected by shard, family time and leader", fmt.Sprintf("%d parameters", nd))
	})

	c.Observe("remoteReplicator suspend: GetLiveNode and isSuspend CAS are not atomic with the online notification (possible lost wake-up) — liveness, not armed")
}

func replicaLogTestAndAppendAtomic(c *eng.Ctx) {
	p := c.P
	_ = p
	c.Rule("ATOMIC", ptT+".ReplicaLog{next-index test + append}", func() {
		f := c.Fn(ptT + ".ReplicaLog")
		put := c.One(f, invokeOn("", "Put"), "Queue().Put(msg)")
		reads := c.Some(f, invokeOn("", "AppendedSeq"), "Queue().AppendedSeq()")
		nt := p.LookupType("replica", "partition")
		st := nt.Underlying().(*types.Struct)
		var mus []string
		for i := 0; i < st.NumFields(); i++ {
			t := st.Field(i).Type().String()
			if t == "sync.Mutex" || t == "sync.RWMutex" {
				mus = append(mus, ptT+"."+st.Field(i).Name())
			}
		}
		ls := p.Locks(f, nil)
		held, why := "", "no mutex of the partition is held over both"
		for _, mu := range mus {
			all := true
			for _, r := range reads {
				ok, w := ls.SameHold(r.Instr, put.Instr, mu, true)
				if !ok {
					all = false
					why = mu[strings.LastIndex(mu, ".")+1:] + ": " + w
				}
			}
			if all {
				held = mu
			}
		}
		c.Check(held != "", "test-and-append-one-hold", put.Instr, f, "the read of the follower's appended sequence that the offered index is tested against and the append happen in one hold of a partition mutex (two streams offering the same position append it once)", why)
		// an index reset (the leader's handshake) is serialised with them
		rf := c.Fn(ptT + ".ResetReplicaIndex")
		set := c.One(rf, invokeOn("", "SetAppendedSeq"), "log.SetAppendedSeq(idx-1)")
		if held != "" {
			c.Check(p.Locks(rf, nil).At(set.Instr).HasField(held, true), "reset-under-the-same-mutex", set.Instr, rf, "ResetReplicaIndex moves the appended sequence under the mutex that ReplicaLog appends under", "not held")
		}
	})
}

// walRegistryReplacedInOneHold (shared by C08 and C07).
func walRegistryReplacedInOneHold(c *eng.Ctx) {
	p := c.P
	_ = p
	c.Rule("ATOMIC", "replica.writeAheadLog.destroy{registry read + replace}", func() {
		f := c.Fn("replica.writeAheadLog.destroy")
		walMu := "replica.writeAheadLog.mutex"
		ls := p.Locks(f, nil)
		var reads []ssa.Instruction
		for _, b := range eng.BlocksT(f) {
			for _, in := range b.Instrs {
				if eng.LoadField("replica.writeAheadLog.familyLogs")(p, in) {
					reads = append(reads, in)
				}
			}
		}
		stores := p.Sites(f, eng.StoreField("replica.writeAheadLog.familyLogs"))
		if len(reads) == 0 || len(stores) == 0 {
			c.Undecided("unresolved anchor: destroy reads (%d) and replaces (%d) w.familyLogs", len(reads), len(stores))
		}
		for i, st := range stores {
			for j, rd := range reads {
				ok, why := ls.SameHold(rd, st.Instr, walMu, true)
				c.Check(ok, fmt.Sprintf("read-and-replace-one-hold[%d,%d]", i, j), st.Instr, f, "the registry is replaced in the write hold in which the kept logs were selected from it", why)
			}
		}
		g := c.Fn("replica.writeAheadLog.GetOrCreatePartition")
		for i, s := range c.Some(g, eng.MapUpdateOf("replica.writeAheadLog.familyLogs"), "w.familyLogs[key] = p") {
			c.Check(p.Locks(g, nil).At(s.Instr).HasField(walMu, true), fmt.Sprintf("register-under-the-mutex[%d]", i), s.Instr, g, "a new partition is registered under the same mutex", "")
		}
	})
}
