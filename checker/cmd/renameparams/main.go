// renameparams is a developer aid for testing the checker: it renames, in a SCRATCH copy of the repository, every
// parameter, receiver, named result and (with -locals) local variable of every function to <name><suffix>, type-correctly
// (all uses of the same object).  The result behaves identically; every check has to stay silent on it.
package main

import (
	"flag"
	"fmt"
	"go/ast"
	"go/format"
	"go/types"
	"os"
	"strings"

	"golang.org/x/tools/go/packages"
)

func main() {
	dir := flag.String("repo", "", "scratch copy of the repository (files are rewritten in place)")
	suffix := flag.String("suffix", "Rn", "suffix appended to every renamed identifier")
	locals := flag.Bool("locals", false, "rename local variables as well")
	flag.Parse()
	if *dir == "" || *dir == "/repo" {
		fmt.Println("usage: renameparams -repo <scratch copy>")
		os.Exit(2)
	}
	cfg := &packages.Config{Mode: packages.LoadSyntax, Dir: *dir, Tests: false}
	pkgs, err := packages.Load(cfg, "./...")
	if err != nil {
		fmt.Println(err)
		os.Exit(2)
	}
	nFiles, nIdents := 0, 0
	for _, pk := range pkgs {
		if len(pk.Errors) > 0 {
			continue
		}
		for i, file := range pk.Syntax {
			name := pk.CompiledGoFiles[i]
			if !strings.HasPrefix(name, *dir) || strings.HasSuffix(name, "_test.go") {
				continue
			}
			objs := map[types.Object]bool{}
			addFields := func(fl *ast.FieldList) {
				if fl == nil {
					return
				}
				for _, f := range fl.List {
					for _, id := range f.Names {
						if id.Name == "_" || id.Name == "" {
							continue
						}
						if o := pk.TypesInfo.Defs[id]; o != nil {
							objs[o] = true
						}
					}
				}
			}
			ast.Inspect(file, func(n ast.Node) bool {
				switch x := n.(type) {
				case *ast.FuncDecl:
					if x.Body == nil {
						return true
					}
					addFields(x.Recv)
					addFields(x.Type.Params)
					addFields(x.Type.Results)
				case *ast.FuncLit:
					addFields(x.Type.Params)
					addFields(x.Type.Results)
				}
				return true
			})
			if *locals {
				for id, o := range pk.TypesInfo.Defs {
					v, ok := o.(*types.Var)
					if !ok || v.IsField() || id.Name == "_" || v.Parent() == nil || v.Parent() == pk.Types.Scope() || v.Parent() == types.Universe {
						continue
					}
					if file.Pos() <= id.Pos() && id.Pos() < file.End() {
						objs[o] = true
					}
				}
			}
			changed := 0
			ast.Inspect(file, func(n ast.Node) bool {
				// a struct literal key `T{name: v}` is an *ast.Ident resolved to a field, never to one of our objects
				id, ok := n.(*ast.Ident)
				if !ok {
					return true
				}
				o := pk.TypesInfo.Uses[id]
				if o == nil {
					o = pk.TypesInfo.Defs[id]
				}
				if o != nil && objs[o] {
					id.Name += *suffix
					changed++
				}
				return true
			})
			if changed == 0 {
				continue
			}
			f, err := os.Create(name)
			if err != nil {
				fmt.Println(err)
				os.Exit(2)
			}
			if err := format.Node(f, pk.Fset, file); err != nil {
				fmt.Println(name, err)
				os.Exit(2)
			}
			f.Close()
			nFiles++
			nIdents += changed
		}
	}
	fmt.Printf("renamed %d identifiers in %d files\n", nIdents, nFiles)
}
