// lincheck decides structural necessary conditions of the lindb properties by static analysis
// of /repo's current working tree (go/packages + go/ssa); it never executes lindb code.
package main

import (
	"encoding/json"
	"flag"
	"fmt"
	"os"
	"strings"
	"time"

	"path/filepath"
	"runtime"
	"sort"

	"lincheck/internal/eng"
	"lincheck/internal/props"
)

// variant is a source edit evaluated in memory (packages overlay) to test the checker itself:
// a breaking variant must be reported by the property's rules, an equivalent one must stay silent.
type variant struct {
	Name   string
	Patch  string
	Expect string // fire | silent
}

func variantsFor(root, prop string) []variant {
	var out []variant
	metas, _ := filepath.Glob(filepath.Join(root, "seeded", "*", "meta.json"))
	sort.Strings(metas)
	for _, m := range metas {
		b, err := os.ReadFile(m)
		if err != nil {
			continue
		}
		var meta struct {
			Property string   `json:"property"`
			CaughtBy []string `json:"caught_by"`
		}
		if json.Unmarshal(b, &meta) != nil {
			continue
		}
		// a seeded change must be reported by the check of the property it was written against; that a neighbouring
		// property's rules happen to report it too is recorded by tools/pmatrix.py, not demanded here (the neighbour's
		// rules may legitimately stop seeing it when they are re-stated)
		if meta.Property != prop {
			continue
		}
		for _, p := range meta.CaughtBy {
			if p == prop {
				out = append(out, variant{Name: "seeded/" + filepath.Base(filepath.Dir(m)), Patch: filepath.Join(filepath.Dir(m), "patch.diff"), Expect: "fire"})
			}
		}
	}
	eq, _ := filepath.Glob(filepath.Join(root, "variants", prop, "*.diff"))
	sort.Strings(eq)
	for _, e := range eq {
		exp := "silent"
		if strings.HasPrefix(filepath.Base(e), "break-") {
			exp = "fire"
		}
		out = append(out, variant{Name: "variants/" + prop + "/" + filepath.Base(e), Patch: e, Expect: exp})
	}
	return out
}

// runVariants evaluates the property on each variant and appends one obligation per variant to c.
func runVariants(pr eng.Property, c *eng.Ctx, repo, root string, known []eng.KnownFinding) map[string]interface{} {
	vs := variantsFor(root, pr.ID)
	var rows []map[string]interface{}
	fired, breaking, silent, equiv, stale := 0, 0, 0, 0, 0
	for _, v := range vs {
		row := map[string]interface{}{"variant": v.Name, "expect": v.Expect}
		ov, err := eng.OverlayFromPatch(repo, v.Patch)
		if err != nil {
			stale++
			row["result"] = "stale-variant: " + err.Error()
			rows = append(rows, row)
			continue
		}
		p, err := eng.Load(eng.LoadOptions{Dir: repo, Overlay: ov})
		if err != nil {
			stale++
			row["result"] = "variant does not type-check: " + err.Error()
			rows = append(rows, row)
			continue
		}
		p.Config = "variant:" + v.Name
		vc := eng.RunProperty(pr, []*eng.Prog{p}, "quick", known, nil)
		var keys []string
		knownKeys := map[string]bool{}
		for _, k := range known {
			if k.Status == "known" && k.Property == pr.ID {
				knownKeys[k.Key] = true
			}
		}
		for _, o := range vc.Obls {
			if (o.Status == "violated" || o.Status == "undecided") && !knownKeys[o.Key] {
				keys = append(keys, o.Key)
			}
		}
		row["reported"] = keys
		ok := false
		if v.Expect == "fire" {
			breaking++
			if len(keys) > 0 {
				fired++
				ok = true
			}
		} else {
			equiv++
			if len(keys) == 0 {
				silent++
				ok = true
			}
		}
		row["result"] = map[bool]string{true: "as expected", false: "UNEXPECTED"}[ok]
		rows = append(rows, row)
		want := "a change known to break the property is reported by this property's rules (checker sensitivity)"
		detail := "the breaking variant produced no violation"
		if v.Expect == "silent" {
			want = "a behaviour-preserving rewrite is not reported (checker specificity)"
			detail = "the equivalent variant was reported: " + strings.Join(keys, ", ")
		}
		ob := eng.Obligation{Key: pr.ID + "/VARIANT/" + v.Name, Rule: "VARIANT", Want: want, Status: "discharged", Config: "overlay"}
		if !ok {
			ob.Status = "violated"
			ob.Detail = detail
		}
		c.Obls = append(c.Obls, ob)
		p = nil
		vc = nil
		eng.ResetCaches()
		runtime.GC()
	}
	return map[string]interface{}{"variants": rows, "variants_fired": fired, "total_breaking": breaking, "variants_silent": silent, "total_equiv": equiv, "stale_variants": stale}
}

func main() {
	repo := flag.String("repo", "/repo", "repository root")
	out := flag.String("out", "/verif/evidence", "evidence directory")
	prop := flag.String("property", "all", "property id(s), comma separated, or all")
	tier := flag.String("tier", "quick", "quick|thorough")
	knownPath := flag.String("known", "/verif/known_findings.json", "known findings file")
	explain := flag.String("explain", "", "replay file to explain")
	list := flag.Bool("list", false, "list obligations")
	dump := flag.String("dump", "", "developer aid: print the SSA of the functions whose key has this prefix")
	paramTable := flag.Bool("paramtable", false, "developer aid: print the table of parameter names by position (internal/eng/paramnames_gen.go)")
	flag.Parse()

	if *paramTable {
		p, err := eng.Load(eng.LoadOptions{Dir: *repo})
		if err != nil {
			fmt.Println(err)
			os.Exit(2)
		}
		fmt.Print(eng.ParamTableSource(p))
		os.Exit(0)
	}
	if *dump != "" {
		p, err := eng.Load(eng.LoadOptions{Dir: *repo})
		if err != nil {
			fmt.Println(err)
			os.Exit(2)
		}
		for _, f := range p.FuncsWithPrefix(*dump) {
			fmt.Printf("=== %s\n", p.FuncKey(f))
			f.WriteTo(os.Stdout)
		}
		os.Exit(0)
	}

	if *explain != "" {
		os.Exit(doExplain(*explain, *repo, *out, *knownPath))
	}
	var todo []eng.Property
	if *prop == "all" {
		todo = props.All()
	} else {
		for _, id := range strings.Split(*prop, ",") {
			p, ok := props.Get(id)
			if !ok {
				fmt.Printf("unknown property %s\n", id)
				os.Exit(2)
			}
			todo = append(todo, p)
		}
	}
	os.Exit(run(todo, *repo, *out, *tier, *knownPath, *list))
}

func run(todo []eng.Property, repo, out, tier, knownPath string, list bool) int {
	start := time.Now()
	known, err := eng.LoadKnown(knownPath)
	if err != nil {
		fmt.Printf("cannot read known findings file: %v\n", err)
		return fail(todo, out, tier, "known-findings file unreadable: "+err.Error())
	}
	configs := []eng.LoadOptions{{Dir: repo}}
	if tier == "thorough" {
		configs = append(configs, eng.LoadOptions{Dir: repo, GOOS: "linux", GOARCH: "386"},
			eng.LoadOptions{Dir: repo, GOOS: "darwin", GOARCH: "arm64"})
	}
	var progs []*eng.Prog
	var labels []string
	for _, c := range configs {
		p, err := eng.Load(c)
		if err != nil {
			fmt.Printf("load failed: %v\n", err)
			return fail(todo, out, tier, "load failed: "+err.Error())
		}
		progs = append(progs, p)
		labels = append(labels, p.Config)
		if tier == "thorough" {
			// keep memory bounded: evaluate config by config is done inside RunProperty; nothing to free here
			_ = p
		}
	}
	loadS := time.Since(start).Seconds()
	rc := 0
	for _, pr := range todo {
		t0 := time.Now()
		var extra func(c *eng.Ctx)
		if tier == "thorough" {
			extra = props.Thorough(pr.ID)
		}
		c := eng.RunProperty(pr, progs, tier, known, extra)
		var vstats map[string]interface{}
		if tier == "thorough" {
			vstats = runVariants(pr, c, repo, filepath.Dir(knownPath), known)
		}
		stats := map[string]interface{}{
			"packages":         len(progs[0].Pkgs),
			"module_functions": progs[0].NumFuncs,
			"load_s":           loadS,
		}
		for k, v := range vstats {
			stats[k] = v
		}
		if list {
			b, _ := json.MarshalIndent(c.Obls, "", " ")
			fmt.Println(string(b))
		}
		// wall time per property = shared load + its own rule time
		if eng.Finish(c, out, t0.Add(-time.Duration(loadS*float64(time.Second))), labels, stats) > 0 {
			rc = 1
		}
	}
	return rc
}

// fail reports an infrastructure failure as a violation of every requested property: a check that
// cannot analyse the tree must not pass.
func fail(todo []eng.Property, out, tier, why string) int {
	_ = os.MkdirAll(out+"/replay", 0o755)
	for _, pr := range todo {
		path := fmt.Sprintf("%s/replay/%s-1.json", out, pr.ID)
		b, _ := json.MarshalIndent(map[string]interface{}{"property": pr.ID, "obligation": map[string]string{
			"key": pr.ID + "/ENGINE/load", "status": "undecided", "detail": why}}, "", " ")
		_ = os.WriteFile(path, b, 0o644)
		ev := eng.Evidence{PropertyID: pr.ID, Tier: tier, Level: "other", Violations: 1,
			Coverage: map[string]interface{}{"explanation": "analysis could not run: " + why, "obligations": 1, "discharged": 0,
				"samples": []string{why}}, Assumptions: []string{}}
		eb, _ := json.MarshalIndent(ev, "", " ")
		_ = os.WriteFile(out+"/"+pr.ID+".json", eb, 0o644)
		fmt.Printf("VIOLATION property=%s replay=%s\n", pr.ID, path)
	}
	return 1
}

func doExplain(path, repo, out, knownPath string) int {
	b, err := os.ReadFile(path)
	if err != nil {
		fmt.Println(err)
		return 2
	}
	var r struct {
		Property   string         `json:"property"`
		Obligation eng.Obligation `json:"obligation"`
	}
	if err := json.Unmarshal(b, &r); err != nil {
		fmt.Println(err)
		return 2
	}
	fmt.Printf("replaying %s obligation %s on the current tree\n", r.Property, r.Obligation.Key)
	pr, ok := props.Get(r.Property)
	if !ok {
		fmt.Println("unknown property")
		return 2
	}
	p, err := eng.Load(eng.LoadOptions{Dir: repo})
	if err != nil {
		fmt.Printf("load failed: %v\nVIOLATION property=%s replay=%s\n", err, r.Property, path)
		return 1
	}
	known, _ := eng.LoadKnown(knownPath)
	c := eng.RunProperty(pr, []*eng.Prog{p}, "quick", known, nil)
	rc := 0
	found := false
	for _, o := range c.Obls {
		if o.Key == r.Obligation.Key {
			found = true
			fmt.Printf("%s  [%s] %s\n  func: %s\n  want: %s\n  status: %s\n  %s\n", o.Site, o.Rule, o.Key, o.Func, o.Want, o.Status, o.Detail)
			if o.Status == "violated" || o.Status == "undecided" {
				rc = 1
				printExcerpt(repo, o.Site)
			}
		}
	}
	if !found {
		fmt.Println("the obligation is no longer produced on the current tree (anchors changed)")
	}
	if rc == 1 {
		fmt.Printf("VIOLATION property=%s replay=%s\n", r.Property, path)
	} else {
		fmt.Println("obligation holds on the current tree")
	}
	return rc
}

func printExcerpt(repo, site string) {
	i := strings.LastIndex(site, ":")
	if i < 0 {
		return
	}
	var line int
	fmt.Sscanf(site[i+1:], "%d", &line)
	b, err := os.ReadFile(repo + "/" + site[:i])
	if err != nil {
		return
	}
	lines := strings.Split(string(b), "\n")
	for n := line - 4; n < line+3; n++ {
		if n >= 0 && n < len(lines) {
			mark := "  "
			if n == line-1 {
				mark = "=>"
			}
			fmt.Printf("%s %5d | %s\n", mark, n+1, lines[n])
		}
	}
}
