#!/usr/bin/env python3
"""Regenerates /verif/MANIFEST.json from the table below (kept in one place so the manifest stays valid)."""
import json, os, sys
ROOT = os.path.dirname(os.path.dirname(os.path.abspath(__file__)))
props = [json.loads(l) for l in open(os.path.join(ROOT, 'properties.jsonl'))]
ids = [p['id'] for p in props]

NOTE = ("Trusted base: go/packages + go/types + go/ssa of golang.org/x/tools v0.29.0; the hand-confirmed rule-instance tables in "
        "checker/internal/props; CHA resolution of interface calls inside the module. Assumes file-system primitives behave as documented and "
        "that calls leaving a package do not call back into mutators of its unexported state. Level 'other': a structural necessary condition "
        "is decided exactly on every path; the behaviour itself is not. The analysis is independent of how a body is split into unexported same-package helpers or "
        "function literals invoked in place: paths, sites, lock states, facts and value flow look through them (checker/internal/eng/transparent.go).")

# id -> (technique, text)
CLAIMED = {
 'C07': ("static analysis: ordered/ok-dominance rules, lock-hold atomicity, provenance of acknowledged sequences, ownership-closed call chains and a freeze-before-metadata-flush chain rule over go/ssa",
         "Decides on every path: acks only from the post-commit callback with the committed capture (or the recovered persisted sequence at registration); freeze and sequence capture in one critical "
         "section, exactly that capture committed in the table's edit log and later promoted to persistSeq; replay validated strictly, rows before the deferred sequence commit; recovered families seed both "
         "sequence maps from the manifest; replay resumes at ack+1; consumer-group acks reachable only via the callback and the ack+1-guarded ignore; every call chain to a data flush closed by ownership and "
         "ordered meta->wait->index->wait->data; and the freeze must precede the metadata flush covering it - today's tree violates that on one chain, recorded as known finding F8."),
 'C08': ("static analysis: must-fact guards on both replication sides, return classification, failure-state path rules (every error edge stores not-ready), handshake alignment and within-log guards over go/ssa",
         "Decides for every path of the follower handler, the leader's send/ack code and the handshake: append only at the follower's own next index; non-appending returns can never equal the request index; the handler echoes "
         "the request index and forwards result and error; the leader acks only on echo equality with an empty error, after a successful receive; every stream/RPC/rejection path stores the failure state before returning; ready is stored "
         "only when leader-next == follower-next (compared, or both reset to ack+1 by a successful reset RPC); a reset of the replica index stays within the leader's own log or follows a re-base of its append index (the off-by-one found here "
         "was a genuine defect, fixed in 8acf7c0); consume->get->send use one sequence. Bytes, gRPC and cross-stream concurrency are not decided."),
 'C09': ("static analysis: get-or-create discipline (re-check under the inserting lock, generator only on miss edges, mutate the container's object), generator ownership, flush-order and prepare/clear guards, counter-file layout agreement",
         "Decides the structure that makes ID assignment atomic and recoverable for all interleavings and crash points: creators re-check memory (and the persisted store after an intervening flush) under the write "
         "lock that guards the insert, generate only on miss edges inside that hold, and mutate the schema object resolved from the container; generators are referenced only by creators and each is one atomic "
         "increment; lookups consult mutable, immutable and persisted data before creating; counters are synced before dictionaries and postings before the series dictionary; prepare-flush swaps only onto an empty "
         "immutable; immutable is cleared only after a successful commit (new snapshot in the same hold); counter file writer/reader agree per role; plus the F8 freeze rule shared with C07 (known finding)."),
 'C10': ("static analysis: type-switch exhaustiveness and agreement of the two condition walkers and of the dictionary lookup over all tag-filter kinds, must-facts of AND/OR/NOT handling, union rule (mutable, immutable and persisted store on every success path of every index read), lock-hold of the cache purge, accumulator reset between emits",
         "Decides structural conditions of index-based filtering for every index state: both condition walkers handle the same full set of condition kinds, the dictionary lookup handles every TagFilter implementer; AND intersects, other accepted operators union, unknown operators are rejected, NOT subtracts from the key's universe; every index read "
         "consults mutable, immutable and persisted data on every success path and memory is read under the store lock; the bucket cache is purged in the hold that installs the new snapshot; the forward merger's accumulator is reset between emitted containers. Result-set equality, trie/regex matching and group-by values are not decided."),
 'C11': ("static analysis: union rule for a family read (mutable, immutable, every selected file; error propagation), typestate of the file snapshot, acquire/complete bracketing vs flush wait, compare-and-replace (clamp) idiom check for range unions, plus the block-writer anchor, footer layout and field-type rules shared with C03",
         "Decides structural conditions of read/write/flush agreement in the storage path: a family read returns memory and file result sets, reads both memory databases under the family mutex and every reader selected for the metric, propagates errors and closes its file snapshot exactly when no result set owns it; writes are bracketed by acquire/complete and a flush waits for them; "
         "range unions replace a bound only by the value it was compared with; block writer anchors, block footer and field type tables as in C03. All numeric parts of query evaluation are not decided."),
 'C12': ("static analysis: exactly-once path rules on the response counters, must-fact guards of the not-found tolerance and of completion, guarded-by for writes, lock-hold atomicity of the leaf's single reduce aggregator, provenance of the receiver index",
         "Decides the accounting and merge-object structure that order/placement independence rests on: one decrement per handled response on every path and one expectation+tolerance per target, under the mutex; a not-found answer ignored only while the tolerance counter (not the response counter) is positive, every other error recorded, "
         "only checked answers merged; done channel closed once, only when nothing is outstanding or an error is set; counters and aggregator written under the mutex; on a leaf the reduce aggregator is created only when absent, in the same hold in which it is used, and read from the shared field; receiver = hash(tags) mod receivers. "
         "Commutativity/associativity of the numeric merge is not decided."),
 'C14': ("static analysis: RESET rule (fields dirtied outside a reuse entry must be re-initialised on every non-failing path of it, through helpers), provenance of pooled objects, aliasing check of the pooled snappy writer",
         "Decides only the reuse-history clause of the property: for 13 reusable encoder/decoder/buffer types every field, sub-object or array element written outside the reuse entry is re-initialised on every non-failing path of that entry; pooled encoders are reset before "
         "being handed out and pooled decoders are re-initialised before any other use at every call site; the pooled snappy writer returns a fresh copy taken before its buffer is reset. Losslessness of the codecs for arbitrary inputs is a numeric property and is not decided."),
 'C15': ("static analysis: must-fact guards on the add and streaming write paths, ordered writes and offset/width agreement of the table footer between builder and reader, membership-before-rank, inclusive file selection, path rule re-establishing the heap after a key change",
         "Decides structural conditions of table building, lookup and merging: a rejected key causes no write and no index update on either path (strict key > last-key test); the indexed offset is taken before the value is written; offsets, keys, footer written in that order and the footer fields are read back at the offsets/widths written, "
         "with equal footer size and magic position; rank only for member keys; min <= key <= max inclusive over all levels and every selected file is visited; after the merged iterator changes a queued item's key the heap is re-established on every path, one pop per step. Rank/offset arithmetic and value bytes are not decided."),
 'C16': ("static analysis: RESET rule for pooled rows/batches/converters, ordered-dominance (validate<dedup<every read of the tag list), switch exhaustiveness over the field-type enum, provenance of the shard index, edge facts of the write-window test, role binding of (behind, ahead) along the call chain",
         "Decides structural conditions of canonicalisation and routing: a re-filled pooled row is completely re-initialised; batch and converter reset all accumulation buffers; validation precedes building, tags are sorted and de-duplicated before any read of the tag list (so hash and stored key/values see the same tags); "
         "every simple field type has a case; shard index of row i = jump-hash(tags hash of row i, shard count) for all rows; a row is marked out-of-range only on the two window-violation edges and the bounds reach the test in the role order of the signature. Hash value properties, format agreement and limits are not decided."),
 'C17': ("static analysis over the type-checked AST and go/ssa: exhaustiveness of the Marshal type switch over all Expr implementers, tag/type agreement of Marshal and Unmarshal, per-kind and per-statement field coverage (value flow + unconditional copy), carrier tag uniqueness, parser determinism scan",
         "Decides writer/reader agreement of the statement wire form: every Expr implementer has a Marshal case; the tag sets agree and each tag binds one Go type on both sides; leaf kinds go through the JSON encoder over exported uniquely-tagged fields; every field of every structured kind is read when marshalling and set when "
         "unmarshalling; every field of Query/MetricMetadata flows into the carrier and back through the same carrier field, not conditional on anything but itself or a decode error; the leaf executes the decoded payload and the root sends MarshalJSON; no map-ordered construction or stray clock source in the parser. "
         "The JSON library's value-level round trip and ANTLR are trusted."),
 'C18': ("static analysis: ownership of shard-state stores, paired-store and provenance rules (online<->alive leader, offline<->no leader), write-back path rule for map-value copies, ordering of liveness/leadership/sync, must-facts on assignment preconditions, symbolic range analysis of the follower shift",
         "Decides the structure of the leadership invariant for every event sequence: state/leader stored only by the three handlers; online only with a leader from a successful election among live replicas or the replica node that just started; offline only with NoLeader and only when the election failed; every modified "
         "local shard-state copy written back before the next shard; live set updated before re-election and synced after; the elector returns a tested-live replica of that shard from a non-empty list; handlers revisit exactly the led / hosted shards; assignment only after its preconditions, growth assigns only missing shards; "
         "the follower shift is provably within [1, nodes-1]. Balance and pairwise distinctness beyond that range are arithmetic and not decided."),
 'C19': ("static analysis: exactly-once path rules (PASS), CAS-guard facts, ownership of the callback/response call sites, error-flow (latch) rule over go/ssa",
         "Decides the skeleton that exactly-once completion with error propagation rests on, for every stage tree and completion order at once: pending++ before execution and before the parent's "
         "(non-deferred) completion; exactly one of complete/error handler per stage path, the pooled task's panic handler being the error handler and the pool's recover block calling it; "
         "callback and leaf response reachable only through one CAS-guarded function each, whose winner always responds once; pending changed once per execute/complete; every non-nil stage "
         "error latched under the mutex before the decrement and the callback argument read from the latch after the counter hit zero. It does not execute pipelines; the pool dropping a task on a cancelled context is listed as an observation."),
 'C06': ("static analysis: ownership closure of position stores, must-fact dataflow with a phi-aware prover (GUARD), lock-hold dataflow, loop-invariant check of the minimum in Sync",
         "Closes, by whole-program ownership, the set of sites that store a group's consumed/ack or the queue ack, and decides for each site the guard or pairing that preserves "
         "ack <= consumed <= appended and queue-ack <= min(group acks): comparison facts that hold on every path to the store inside one lock hold; resets that write all positions "
         "from one value; the constructor's initial pair proved ordered through the clamps; Sync's argument proved a running minimum that visits every group; truncation strictly "
         "below the ack's page and reachable only from GC; persistence of every store to the agreed meta offset. Necessary conditions for all histories/schedules; readability of bytes is not decided."),
 'C01': ("static analysis: ok-dominance and never-before rules over the commit, journal and recovery code (incl. deferred effects through helpers), lock-hold atomicity, whole-program ownership of file-system mutators, codec sequence/field agreement, registry exhaustiveness, snapshot/Clone completeness",
         "Decides, for every path of the code as written, the protocol shape a crash-atomic commit needs: close(ok) before the NewFile record; one edit log per flush and that log committed; the pending mark never released before the commit (also through helpers and defers); compaction outputs registered after close and "
         "installed only after a successful merge; write then sync per manifest record; next-file-number record, persist(ok), apply-to-clone, install in one write hold; journal created, snapshotted(ok), CURRENT switched by tmp+rename(ok), then adopted; replay(ok) before the new journal; obsolete manifests deleted only after "
         "recovery, never the live one, only from newStore; os mutators only via owned seams; each Log codec symmetric per field, every Log type registered, snapshot re-emits every additive record kind and the next FILE number, Clone carries every component; a new table's number is one value through allocate/pending/create. "
         "File-system semantics and replayed contents are not decided."),
 'C02': ("static analysis: guarded-by (whole-program field access under a mutex, exception table), lock-hold atomicity of pick+retain, ownership of retain/release/evict/unmap, keep-set union and order, typestate of snapshot values",
         "Decides the lock discipline and keep-set structure that make deletion safe for every interleaving: version lists only under the family-version mutex; current picked and retained in one hold; retain only in snapshot creation, release only in the CAS-guarded Close; "
         "a version forgotten only when not current; cleanup keep-set = pending (read first) + files of ALL active versions + live rollup files, evict before delete, table files only; readers closed only by the cache, time-based eviction only at ref==0; every snapshot value closed on all paths or handed to a listed owner; "
         "background jobs close their snapshot before cleaning. Races outside these scopes and content equality are not decided."),
 'C03': ("static analysis: single-commit and union rules over the compaction job, path rule that no iterator value is dropped (with infeasible-branch pruning), independent-bounds rule for the range union, anchor-freshness rule in the block writer, footer role/offset agreement, field-type table exhaustiveness/agreement and accepted forms of the binary aggregate",
         "Decides structural necessary conditions of value-preserving compaction: one commit carries deletions of both input levels and all outputs; both input sets iterated; every iterator value reaches the merger's batch and the last batch is merged; merge errors abort, open outputs are finished; the merger unions series ids and (independently per bound) "
         "slot ranges of all blocks, flushes each merged series and commits with that range; relative offsets in the block writer are only taken against an anchor re-captured after foreign bytes were written; block footer writer/reader agree per role; field-type tables are exhaustive and consistent; the combine step has the expected algebraic form. "
         "Aggregate values over data, slot arithmetic in the series merger and decoding are not decided."),
 'C04': ("static analysis: provenance/order rules over the rollup bookkeeping (registration in the flush commit, skip of referenced files, reference records in the job's commit, ok-guarded delete-rollup records, source commit before reference cleaning), sibling symmetry of the target range ends, calculator exhaustiveness",
         "Decides the exactly-once bookkeeping structurally: each flushed file is registered for every configured target in the flush's own commit; rollup work consults the target's live references first, drops referenced files and selects inputs from the filtered set; a reference record naming the same file is created for every existing input and is in the "
         "compaction's log before the job runs; delete-rollup records and reference cleaning are scheduled only for targets whose work succeeded; the source commit precedes every cleaning; both ends of the target slot range use one mapping; every interval type has a calculator. Slot arithmetic and aggregate values are not decided."),
 'C05': ("static analysis: lock-hold dataflow (ATOMIC), dominance (ORDER), value provenance and writer/reader layout agreement over go/ssa",
         "Decides, for every path of the append code as written, that one Put is a single write hold of queue.rwMutex covering cursor advance, data write, "
         "index entry, meta write and sequence publication; that data<index<meta<publish<signal is the only order; that the published sequence is appendedSeq+1 "
         "and the index slot/meta value derive from it; that Get/GC/reopen read each index-entry field and meta field at the offset/width the writer used; that "
         "Get touches pages only after a successful range check; and that only the append path, constructor and explicit reset write the cursor/sequence. "
         "These are necessary conditions of C05 for all interleavings/crash points at once (a lock scope or an order is true or false for every schedule); byte "
         "equality and OS durability are not decided."),
}

# rules added after the first revision (validation rounds 2 and 3); appended to the level text / technique
EXTRA = {
 'C18': "Also: No loop of the three state handlers is left early (every listed shard is handled); ElectLeader never writes through memory shared with its arguments (alias walk over slices, local struct fields and φ-nodes; x[:0:0] is fresh, x[:0] is not).",
 'C01': "Also: the error of the deferred final flush in storeBuilder.Close reaches its named result and every footer write gates success; a commit reads the version it clones inside the write hold that installs the result; with CURRENT present a new journal is reachable only through a successful replay. The rollup's three manifest commits are ordered: the source's delete-rollup marks are committed before any target drops its reference marks (rule shared with C04). The obsolete-file scans of an open run only after a successful open, and a torn final manifest record ends the replay instead of failing it (F25, fixed); the rollup's reference cleaning requires the TRUE outcome of the source commit (F23, fixed; shared with C04). A table builder becomes a table file whenever it holds a key: flush and compaction decide by Count(), never by the number of value bytes (F26, fixed).",
 'C02': "Also: a commit's base version (GetSnapshot/GetCurrent/Clone) is read in the same write hold of the version-set mutex that installs the new version, so overlapping commits cannot clone one base. The pending-output claim of a new table file is dropped only after the commit that makes a version reference the file (flush and compaction).",
 'C03': "Also: a source block hands out field data only on the found-edge of the lookup of the requested field id; level-1 inputs of an L0 compaction pass through a set keyed by file number (each file merged once); the compaction job is single-flight (flag claimed by CompareAndSwap, job started only by the claimer). The per-block scanner of the merge advances to its next container only when its current high key is SMALLER than the requested one and answers only on an exact match; the series merger positions each input block's decoder with that block's own slot range and writes only what the encoder produced over the target range.",
 'C04': "Also: the rollup job is single-flight (CAS claim, no blind Store(true)); the reference record is written, looked up and deleted under the same key (source store, source family id, file). The series merger decodes every input block over the block's own slot range (rule shared with C03). The targets' reference records are cleaned only on the TRUE outcome of the source family's commit (F23, fixed); every requested source file becomes an input of the rollup merge or the work fails — a file compacted out of level 0 is not passed over (F24, fixed). A calculator's modulus is never below its family length (table); Last/First over several input blocks are decided by comparing source slots, not by block order (F29, fixed).",
 'C05': "Also: a failed page acquisition leaves the write cursor untouched (no cursor store before a failing exit, page switch only after AcquirePage succeeded); index page and slot are computed from one sequence in writer, reader, GC and reopen, reopen using exactly the appended sequence; no page read in Get is reachable once the sequence was found out of range. The index entry of a message is written into the cached index page only when the cached page index was compared EQUAL to seq / indexItemsPerPage or just switched to it (the appended sequence can move backwards); data pages are mapped with a size provably >= the constant alloc rolls over at.",
 'C06': "Also: every position written by an explicit reset is persisted in the same hold. A consumer group is opened (positions lifted to the queue-wide ack read at that moment) and registered in ONE write hold of the map lock that Sync reads under.",
 'C07': "Also: a consumer group is empty only when appended <= ACKNOWLEDGED (never the consumed position), and the expiry of a partition asks every group: a family log is not collected while applied-but-unflushed entries exist. Once one group answered non-empty, IsExpire can only return false (path-sensitive boolean constant propagation); the id sequences are synced before the metadata dictionaries are flushed (rule shared with C09). The sequence key of a local replicator is the channel's leader and a flusher records every sequence it is given (0 included); an entry's sequence must be committed inside the write bracket of its rows — the one call site that does not is the recorded finding F28.",
 'C08': "Also: the queue-level barrier is the minimum over the groups' ACKNOWLEDGED positions (rule shared with C06); index<->sequence conversions of the replicator are inverse pairs (AppendIndex/ResetAppendIndex, ReplicaIndex/ResetReplicaIndex, ack without offset); every Ready exit of the handshake passed closeStream() (a stream of the failed period is never re-used). The leader's family log is reported expired only when every consumer group is drained: after a group answered non-empty no return of IsExpire can yield true (path-sensitive boolean constant propagation over the flag, whatever its form).",
 'C09': "Also: the flush life-cycle rules are shared with C10; the flush version handed to the resolver is the value read (under the lock) before the unlocked lookup. Schema flush marks persisted exactly what it wrote (genuine defect F16, fixed); the schema compaction merger accumulates each metric into a fresh object, or a reused one with every list Unmarshal appends to emptied first. PrepareFlush never installs an immutable store that Flush would skip and keep (F17, fixed). GenSeriesID has no failing exit after the id was registered (a refusal happens inside the create callback; F30, fixed).",
 'C10': "Also: every index reader reads the memory stores BEFORE it picks the snapshot (entries only move memory -> kv store; the opposite order was genuine defects F9/F11, fixed); the universe of NOT is read for the tag key the atomic filter reports, also when nothing matched; an atom that matches no value yields an empty set, not an error; prepare-flush/flush life cycle of the four memory stores. Group-by resolution asks every grouping scanner of every tag key (no break / return out of the scan); the dictionary create path re-checks mutable AND immutable store under the write lock (rule shared with C09). The run of container i in a persisted forward index starts after the runs of ALL containers before it (lookup table = running sum; F18, fixed); a persisted regex lookup narrows its candidate keys by the literal prefix only for an anchored expression (F19, fixed); no like-pattern is sliced out of range (F20, fixed); a swapped store is always drained (F17, fixed; shared with C09).",
 'C11': "Also: memory is filtered before the file snapshot is taken; a not-found answer of one part (mutable / immutable memory database, files) never discards the other parts (genuine defect F12, fixed); flush writes one positional entry per field for every series (data or empty). The end marker of a field's write buffer only grows (F13, fixed); AggType.Aggregate receives (stored, incoming) in write order at every call site (F14, fixed); a single-field block is delivered under the query position of its field (F15, fixed); a source block hands out field data only for a held field id (rule shared with C03); the per-family aggregator covers [(base+start)/ratio, (base+end)/ratio], both bounds mapped by the emitter's own expression. Memory data is delivered under the QUERY's field meta; the forward-only TSD cursor is asked for every slot and every value is consumed; the two directions of the memory series index are collected together (F27, fixed).",
 'C12': "Also: the tag-value lookups return only the errors of the dictionary read: an OR/NOT atom that matches nothing on one node is an empty set, so the node does not answer 'not found' for series matching the rest of the condition. A per-shard plan node whose operator can produce ErrNotFound (call graph, CHA through interfaces, only functions that can hand a non-nil error back) is created with NewPlanNodeWithIgnore; the automatic group-by interval is derived from the ALIGNED time range, so planning the root's statement again on an intermediate node yields the same interval.",
 'C14': "Also: FixedOffsetDecoder.Unmarshal re-initialises every field on every exit, error exits included (callers keep using a decoder whose Unmarshal failed); the long-lived snappy reader resets its buffers and the s2 reader on every exit of Uncompress. The empty-slot sentinel is +Inf at the producer and at every consumer test (-Inf is a value); FixedOffsetEncoder.max is raised per element inside the scan over all offsets (FromValues) / per added value (Add); GetBlock accepts start == end.",
 'C15': "Also: FindFiles, getOverlappingInputs and FindReaders visit every candidate file (no break/return out of the scan other than a failing exit). Snapshot.Load leaves its scan of the selected files only with an error; FixedOffsetDecoder.GetBlock accepts an empty range (a key stored with an empty value). A table builder becomes a table file whenever it holds a key: flush and compaction decide by Count(), never by the number of value bytes (F26, fixed).",
 'C16': "Also: a family group is the rows inside the family range of the group's first row, tested with TimeRange.Contains against the range built from that same timestamp, and handed out with that timestamp's family time; the line-protocol parser resets its row builder on every path from the loop test to the next line. The stored name hash is computed from exactly the namespace and name strings that are written into the row (after enrichment and sanitizing); the broker's write interval is element 0 of the very list that was sorted before.",
 'C17': "Also: no parser function takes a list from a helper that fills it inside a range over a map (e.g. strutil.DeDupStringSlice). A lexer / parser taken from the pool is put back only after the last step of the parse that uses it (token stream creation, parser.Statement(), tree walk).",
 'C19': "Also: on the query execution path recover() is called only by the two designated handlers (or a function they defer); planNode.ExecuteWithStats returns the operator's own error and its stats closure does not touch it. A stage that was counted as pending is completed with the error when its Plan()/Execute() panics in executeStage itself (deferred recover -> completeStage(stageID, err) dominating both calls; F21, fixed). The task's error is a latch: every store into baseTaskContext.err carries a provably non-nil error or is guarded by err == nil (F22, fixed).",
}

TECH_EXTRA = {
 'C03': "; must-fact guard of the merge scanner's advance, provenance of decoder ranges and encoder output in the series merger",
 'C04': "; provenance of decoder ranges in the series merger",
 'C05': "; edge-fact path rule for the cached index page, constant/fact bound of the mapped page size",
 'C06': "; lock-hold atomicity of group creation",
 'C07': "; path-sensitive boolean constant propagation over the expiry flag",
 'C08': "; path-sensitive boolean constant propagation over the expiry flag",
 'C09': "; written==marked rule of the schema flush, accumulator freshness of the schema merger",
 'C10': "; early-exit scan of the grouping scanner loops",
 'C11': "; argument-order and query-position provenance rules, descriptor symmetry of the aggregator's target range",
 'C12': "; call-graph (CHA) search for producers of ErrNotFound below per-shard plan nodes, load-after-store order of the range alignment",
 'C14': "; sentinel sign agreement, guarded raise of the offset maximum, inclusive-range fact at GetBlock's success exit",
 'C15': "; early-exit scan of Snapshot.Load",
 'C16': "; provenance of the name-hash inputs and of the write interval (sorted list = list read)",
 'C17': "; typestate of the pooled lexer/parser (no use reachable after release)",
 'C18': "; early-exit scan of the handlers, alias walk proving ElectLeader writes no argument memory",
}

NA = {
 'C13': "every clause is arithmetic over millisecond timestamps / calendar fields; no structural clause is a necessary condition that a sound static rule in reach can decide (DESIGN.md section 4, C13)",
 'C20': "map-equivalence of the succinct trie for every key set and probe is a value property of rank/select arithmetic; nothing structural in reach is a necessary condition (DESIGN.md section 4, C20)",
}
PENDING = "check not built yet in this revision (static rule design in DESIGN.md section 4); not claimed until the check exists"

m = {
 "version": 1,
 "setup_cmd": "cd /verif/checker && GOFLAGS=-mod=mod GOPROXY=off GOSUMDB=off GOTOOLCHAIN=local GOWORK=off CGO_ENABLED=0 go build -o ../bin/lincheck ./cmd/lincheck",
 "hooks": {"guard": "verif",
           "enable": "none needed: the checks are static, read /repo's working tree and add no code to it",
           "baseline_off_cmd": "cd /repo && GOFLAGS=-mod=mod GOPROXY=off GOSUMDB=off go test -vet=off -count=1 -timeout 25m ./...",
           "source_commits": [], "add_only": True},
 "engines": [{"name": "lincheck", "path": "/verif/checker", "serves_properties": sorted(CLAIMED),
              "kind_free_text": "repository-specific static analyser: go/packages + go/types + go/ssa (x/tools v0.29.0); dominance/path queries, must-fact dataflow, lock-hold dataflow, ownership, exhaustiveness, layout agreement, reset/typestate/provenance rules; no lindb code is executed"}],
 "checks": [],
 "notes": "All claims are level 'other' (structural necessary conditions decided by static analysis). known_findings.json lists fix: commits and the one recorded finding (F8). seeded/ holds externally produced breaking changes used to test the checks.",
 "not_applicable": [],
}
for i in ids:
    if i in CLAIMED:
        tech, text = CLAIMED[i]
        tech = tech + TECH_EXTRA.get(i, '')
        if i in EXTRA:
            text = text + " " + EXTRA[i]
        m["checks"].append({
            "property_id": i,
            "quick_cmd": "./run.sh %s quick" % i,
            "thorough_cmd": "./run.sh %s thorough" % i,
            "evidence_file": "/verif/evidence/%s.json" % i,
            "replay_cmd_template": "./run.sh explain {path}",
            "engine": "lincheck",
            "level_claimed": {"category": "other", "text": text, "design_ref": "DESIGN.md section 4, " + i},
            "level_note": NOTE,
            "technique": tech,
        })
    else:
        m["not_applicable"].append({"property_id": i, "reason": NA.get(i, PENDING)})
json.dump(m, open(os.path.join(ROOT, 'MANIFEST.json'), 'w'), indent=1)
print("claimed:", sorted(CLAIMED), "n/a:", [x['property_id'] for x in m['not_applicable']])
