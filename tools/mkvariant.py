#!/usr/bin/env python3
"""usage: mkvariant.py <prop> <name> <file> <<< JSON [[old,new],...]  : applies replacements in /tmp/wt-equiv, builds the package, writes the diff."""
import sys, json, subprocess, os
prop, name, path = sys.argv[1:4]
pairs = json.loads(sys.stdin.read(), strict=False)
wt = '/tmp/wt-equiv'
p = os.path.join(wt, path)
s = open(p).read()
for old, new in pairs:
    if s.count(old) != 1:
        print("ANCHOR COUNT", s.count(old), "for", old[:60]); sys.exit(1)
    s = s.replace(old, new)
open(p, 'w').write(s)
env = dict(os.environ, GOFLAGS='-mod=mod', GOPROXY='off', GOSUMDB='off', GOTOOLCHAIN='local')
r = subprocess.run(['go', 'build', './' + os.path.dirname(path)], cwd=wt, env=env, capture_output=True, text=True)
if r.returncode != 0:
    print("BUILD FAILED", r.stderr[:2000]); subprocess.run(['git', 'checkout', '--', '.'], cwd=wt); sys.exit(1)
subprocess.run(['gofmt', '-l', path], cwd=wt)
d = subprocess.run(['git', 'diff'], cwd=wt, capture_output=True, text=True).stdout
os.makedirs('/verif/variants/' + prop, exist_ok=True)
open('/verif/variants/%s/%s.diff' % (prop, name), 'w').write(d)
subprocess.run(['git', 'checkout', '--', '.'], cwd=wt)
print("wrote", prop, name, len(d.splitlines()), "lines")
