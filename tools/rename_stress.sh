#!/bin/bash
# usage: tools/rename_stress.sh [-locals]
# Developer aid (not a registered check): renames every parameter, receiver and named result (with -locals every local variable
# too) in a scratch worktree of /repo's HEAD, builds it and runs all quick checks on it.  The renamed tree behaves identically,
# so every obligation must be discharged exactly as on /repo.  The worktree is removed afterwards.
set -u
export GOFLAGS=-mod=mod GOPROXY=off GOSUMDB=off GOTOOLCHAIN=local CGO_ENABLED=0 GOWORK=off
WT=/tmp/wt-rename-$$
cd /verif/checker && go build -o /tmp/renameparams-$$ ./cmd/renameparams && go build -o /tmp/lincheck-rn-$$ ./cmd/lincheck || exit 2
git -C /repo worktree add -q --detach "$WT" HEAD || exit 2
trap 'git -C /repo worktree remove --force "$WT"; rm -rf /tmp/renameparams-$$ /tmp/lincheck-rn-$$ /tmp/ev-rename-$$' EXIT
/tmp/renameparams-$$ -repo "$WT" "$@" || exit 2
( cd "$WT" && go build ./... ) || { echo "renamed tree does not build"; exit 2; }
/tmp/lincheck-rn-$$ -property all -tier quick -repo "$WT" -out /tmp/ev-rename-$$ -known /verif/known_findings.json | grep -v "^KNOWN-FINDING" | grep "VIOLATION\|#\|undecided\|quick:"
