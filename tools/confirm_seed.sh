#!/bin/bash
# usage: tools/confirm_seed.sh <seed dir e.g. /tmp/seed-out/C01-m1>   -> prints CONFIRMED/REJECTED and writes <dir>/confirm.json
# Independently re-checks a seeded change in a scratch worktree: demo passes without the patch, fails with it,
# the tree builds, and the same 45 packages stay ok. The worktree is removed afterwards.
set -u
D="$1"; ID=$(basename "$D")
export GOFLAGS=-mod=mod GOPROXY=off GOSUMDB=off GOTOOLCHAIN=local
WT=/tmp/wt-confirm-$ID
git -C /repo worktree remove --force "$WT" >/dev/null 2>&1
git -C /repo worktree add -q --detach "$WT" HEAD || exit 2
RUN="$D/demo/run.sh"
res() { echo "{\"id\":\"$ID\",\"demo_without_patch\":$1,\"apply\":$2,\"build\":$3,\"demo_with_patch\":$4,\"ok_packages\":$5}" > "$D/confirm.json"; }
timeout 900 bash "$RUN" "$WT" > "$D/confirm_without.log" 2>&1; R0=$?
( cd "$WT" && git checkout -q -- . && git clean -fdq )
git -C "$WT" apply "$D/patch.diff"; RA=$?
( cd "$WT" && go build ./... ) > "$D/confirm_build.log" 2>&1; RB=$?
timeout 900 bash "$RUN" "$WT" > "$D/confirm_with.log" 2>&1; R1=$?
( cd "$WT" && git status --short | grep -v "^ M" | awk '{print $2}' | xargs -r rm -rf )
OK=$( cd "$WT" && go test -vet=off -count=1 ./... 2>&1 | grep -c "^ok" )
if [ "$OK" != "45" ]; then  # port clashes in pkg/state: retry that package once
  if ( cd "$WT" && go test -vet=off -count=1 ./pkg/state 2>&1 | grep -q "^ok" ); then OK=$((OK+1)); fi
fi
res $R0 $RA $RB $R1 $OK
git -C /repo worktree remove --force "$WT"
if [ $R0 -eq 0 ] && [ $RA -eq 0 ] && [ $RB -eq 0 ] && [ $R1 -ne 0 ] && [ "$OK" -ge 45 ]; then echo "CONFIRMED $ID (demo: pass->fail rc=$R1, ok packages $OK)"; else echo "REJECTED $ID r0=$R0 apply=$RA build=$RB r1=$R1 ok=$OK"; fi
