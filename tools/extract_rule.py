#!/usr/bin/env python3
"""extract_rule.py <file> <header-substring> <funcname>: turn `c.Rule(K, key, func() { BODY })` into a call to a named function."""
import sys,re
path, hdr, name = sys.argv[1:4]
s = open(path).read()
lines = s.split('\n')
for i,l in enumerate(lines):
    if hdr in l and 'c.Rule(' in l and l.rstrip().endswith('func() {'):
        start = i; break
else:
    sys.exit('header not found')
indent = re.match(r'\s*', lines[start]).group(0)
for j in range(start+1, len(lines)):
    if lines[j] == indent + '})':
        end = j; break
body = lines[start+1:end]
# dedent by one tab
body = [b[1:] if b.startswith('\t') else b for b in body]
head = lines[start][:lines[start].rindex('func() {')] + 'func() { %s(c) })' % name
new = lines[:start] + [head] + lines[end+1:]
fn = ['', 'func %s(c *eng.Ctx) {' % name, '\tp := c.P', '\t_ = p'] + body + ['}', '']
open(path,'w').write('\n'.join(new).rstrip('\n') + '\n' + '\n'.join(fn))
print('extracted', name, end-start-1, 'lines')
