#!/usr/bin/env python3
"""usage: tools/equivmatrix.py <dir with */patch.diff> [glob]   (behaviour-preserving refactorings)
For every patch: apply to /repo, go build the changed packages, run ALL quick checks, list every obligation reported
(violated / undecided) — each one is a FALSE ALARM to be fixed in the checker — then restore /repo."""
import sys, os, json, subprocess, glob, shutil
root = sys.argv[1]
pat = sys.argv[2] if len(sys.argv) > 2 else '*'
ev = '/tmp/equivmatrix-ev'
env = dict(os.environ, GOFLAGS='-mod=mod', GOPROXY='off', GOSUMDB='off', GOTOOLCHAIN='local')
bad = 0
for d in sorted(glob.glob(os.path.join(root, pat, 'patch.diff'))):
    sid = os.path.basename(os.path.dirname(d))
    if subprocess.run(['git', '-C', '/repo', 'diff', '--quiet']).returncode != 0:
        sys.exit('/repo dirty')
    if subprocess.run(['git', '-C', '/repo', 'apply', d], capture_output=True).returncode != 0:
        print('%-10s STALE (does not apply)' % sid); continue
    b = subprocess.run(['go', 'build', './...'], cwd='/repo', env=env, capture_output=True, text=True)
    if b.returncode != 0:
        print('%-10s BUILD FAILED' % sid); subprocess.run(['git', '-C', '/repo', 'checkout', '--', '.']); subprocess.run(['git', '-C', '/repo', 'clean', '-fdq']); continue
    shutil.rmtree(ev, ignore_errors=True)
    subprocess.run(['/verif/bin/lincheck', '-property', 'all', '-tier', 'quick', '-repo', '/repo', '-out', ev, '-known', '/verif/known_findings.json'], capture_output=True)
    subprocess.run(['git', '-C', '/repo', 'checkout', '--', '.'])
    subprocess.run(['git', '-C', '/repo', 'clean', '-fdq'])
    hits = []
    for f in sorted(glob.glob(ev + '/C*.json')):
        e = json.load(open(f))
        for o in e['coverage'].get('samples', []):
            if isinstance(o, dict) and o.get('status') in ('violated', 'undecided'):
                hits.append((o['key'], o.get('detail', '')[:160]))
    if hits:
        bad += 1
        print('%-10s FALSE ALARM x%d' % (sid, len(hits)))
        for k, dt in hits[:6]:
            print('     ', k, '|', dt)
    else:
        print('%-10s silent' % sid)
shutil.rmtree(ev, ignore_errors=True)
print('patches with alarms:', bad)
