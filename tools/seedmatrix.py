#!/usr/bin/env python3
"""usage: tools/seedmatrix.py <dir with */patch.diff> [out.json]
For every seeded change: apply to /repo, run ALL quick checks, collect the violated/undecided obligation keys per
property from the evidence files, restore /repo. Prints a markdown table; optionally writes JSON."""
import sys, os, json, subprocess, glob, shutil
root = sys.argv[1]
out = {}
ev = '/tmp/seedmatrix-ev'
for d in sorted(glob.glob(os.path.join(root, '*', 'patch.diff'))):
    sid = os.path.basename(os.path.dirname(d))
    if subprocess.run(['git', '-C', '/repo', 'diff', '--quiet']).returncode != 0:
        sys.exit('/repo dirty')
    if subprocess.run(['git', '-C', '/repo', 'apply', d], capture_output=True).returncode != 0:
        out[sid] = {'stale': True}; continue
    shutil.rmtree(ev, ignore_errors=True)
    subprocess.run(['/verif/bin/lincheck', '-property', 'all', '-tier', 'quick', '-repo', '/repo', '-out', ev, '-known', '/verif/known_findings.json'], capture_output=True)
    subprocess.run(['git', '-C', '/repo', 'checkout', '--', '.'])
    hits = {}
    for f in glob.glob(ev + '/C*.json'):
        e = json.load(open(f))
        for o in e['coverage'].get('samples', []):
            if isinstance(o, dict) and o.get('status') in ('violated', 'undecided'):
                hits.setdefault(e['property_id'], []).append(o['key'].split('/', 1)[1])
    out[sid] = hits
shutil.rmtree(ev, ignore_errors=True)
if len(sys.argv) > 2:
    json.dump(out, open(sys.argv[2], 'w'), indent=1)
print('| seeded change | caught by | reporting obligations (first two) |')
print('|---|---|---|')
for sid, hits in out.items():
    if hits.get('stale'):
        print('| %s | STALE | |' % sid); continue
    props = ', '.join(sorted(hits)) or '**MISSED**'
    keys = []
    for p in sorted(hits):
        keys += ['%s/%s' % (p, k) for k in hits[p][:2]]
    print('| %s | %s | %s |' % (sid, props, '<br>'.join('`%s`' % k for k in keys[:3])))
