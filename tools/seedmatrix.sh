#!/bin/bash
# usage: tools/seedmatrix.sh <dir with */patch.diff> > matrix.tsv
# For every seeded change: apply to /repo, run ALL quick checks, list the violated obligation keys, restore /repo.
cd /verif || exit 2
for d in "$1"/*/; do
  id=$(basename "$d"); [ -f "$d/patch.diff" ] || continue
  git -C /repo diff --quiet || { echo "/repo dirty" >&2; exit 2; }
  git -C /repo apply "$d/patch.diff" 2>/dev/null || { echo -e "$id\tSTALE\t"; continue; }
  out=$(./bin/lincheck -property all -tier quick -repo /repo -out /tmp/seedmatrix-ev -known /verif/known_findings.json 2>&1)
  git -C /repo checkout -- .
  keys=$(echo "$out" | grep -E "^[^ ].*: [A-Z-]+ C[0-9]+/" | sed -E 's/^[^ ]+: [A-Z-]+ //' | sort -u | tr '\n' ';')
  props=$(echo "$keys" | tr ';' '\n' | cut -d/ -f1 | sort -u | tr '\n' ',' )
  echo -e "$id\t$props\t$keys"
done
rm -rf /tmp/seedmatrix-ev
