#!/usr/bin/env python3
"""usage: tools/pmatrix.py <mode: seeds|equiv> <out.json> <dir> [<dir>...]   [-j N] [-props all|own|<ids>]
Runs every <dir>/*/patch.diff against the quick checks in parallel, each in its own scratch worktree of /repo's HEAD
(under /tmp/wtp-<i>, removed afterwards).  seeds: expect at least one obligation reported (MISSED otherwise);
equiv: expect none (FALSE ALARM otherwise).  -props own (seeds only) runs just the properties in meta.json caught_by/property."""
import sys, os, json, subprocess, glob, shutil, concurrent.futures as cf, threading, queue
args = sys.argv[1:]
mode, outp = args[0], args[1]
dirs, J, props_mode = [], 6, 'all'
i = 2
while i < len(args):
    if args[i] == '-j': J = int(args[i+1]); i += 2
    elif args[i] == '-props': props_mode = args[i+1]; i += 2
    else: dirs.append(args[i]); i += 1
env = dict(os.environ, GOFLAGS='-mod=mod', GOPROXY='off', GOSUMDB='off', GOTOOLCHAIN='local')
env.pop('GOWORK', None)
patches = []
for d in dirs:
    patches += sorted(glob.glob(os.path.join(d, '*', 'patch.diff')))
pool = queue.Queue()
for k in range(J):
    wt = '/tmp/wtp-%d-%d' % (os.getpid(), k)
    subprocess.run(['git', '-C', '/repo', 'worktree', 'remove', '--force', wt], capture_output=True)
    subprocess.run(['git', '-C', '/repo', 'worktree', 'add', '-q', '--detach', wt, 'HEAD'], check=True)
    pool.put(wt)
def run(patch):
    sid = os.path.basename(os.path.dirname(patch))
    wt = pool.get()
    try:
        if subprocess.run(['git', '-C', wt, 'apply', patch], capture_output=True).returncode != 0:
            return sid, {'status': 'STALE'}
        if mode == 'equiv':
            b = subprocess.run(['go', 'build', './...'], cwd=wt, env=env, capture_output=True, text=True)
            if b.returncode != 0:
                return sid, {'status': 'BUILD-FAILED', 'detail': b.stderr[:300]}
        props = 'all' if props_mode in ('all', 'own') else props_mode  # -props C12,C19: just these properties
        if props_mode == 'own':
            try:
                m = json.load(open(os.path.join(os.path.dirname(patch), 'meta.json')))
                ps = m.get('caught_by') or [m['property']]
                props = ','.join(ps)
            except Exception:
                pass
        ev = '/tmp/pm-ev-' + os.path.basename(wt)
        shutil.rmtree(ev, ignore_errors=True)
        subprocess.run([os.environ.get('LINCHECK_BIN', '/verif/bin/lincheck'), '-property', props, '-tier', 'quick', '-repo', wt, '-out', ev, '-known', '/verif/known_findings.json'], capture_output=True, env=env)
        hits = {}
        for f in glob.glob(ev + '/C*.json'):
            e = json.load(open(f))
            for o in e['coverage'].get('samples', []):
                if isinstance(o, dict) and o.get('status') in ('violated', 'undecided'):
                    hits.setdefault(e['property_id'], []).append([o['key'].split('/', 1)[1], o.get('detail', '')[:200]])
        shutil.rmtree(ev, ignore_errors=True)
        return sid, {'status': 'ok', 'hits': hits}
    finally:
        subprocess.run(['git', '-C', wt, 'checkout', '--', '.'], capture_output=True)
        subprocess.run(['git', '-C', wt, 'clean', '-fdq'], capture_output=True)
        pool.put(wt)
res = {}
with cf.ThreadPoolExecutor(J) as ex:
    for sid, r in ex.map(run, patches):
        res[sid] = r
for k in range(J):
    subprocess.run(['git', '-C', '/repo', 'worktree', 'remove', '--force', '/tmp/wtp-%d-%d' % (os.getpid(), k)], capture_output=True)
json.dump(res, open(outp, 'w'), indent=1)
bad = 0
for sid in sorted(res):
    r = res[sid]
    if r['status'] != 'ok':
        print('%-10s %s' % (sid, r['status'])); continue
    n = sum(len(v) for v in r['hits'].values())
    if mode == 'seeds' and n == 0:
        bad += 1; print('%-10s MISSED' % sid)
    if mode == 'equiv' and n > 0:
        bad += 1; print('%-10s FALSE ALARM x%d' % (sid, n))
        for p, hs in sorted(r['hits'].items()):
            for k, d in hs[:4]:
                print('      %s/%s | %s' % (p, k, d))
print('%s: %d patches, %d %s' % (mode, len(res), bad, 'missed' if mode == 'seeds' else 'with alarms'))
