#!/usr/bin/env python3
"""usage: tools/install_seeds.py <seed-out dir> <matrix.json>
Copies every CONFIRMED seeded change (confirm.json: demo passes without the patch, patch applies and builds, demo fails
with it, 45 ok packages) into /verif/seeded/<id>/ with patch.diff, demo/, meta.json (+caught_by, +confirmation)."""
import sys, os, json, shutil
src, matrix = sys.argv[1], json.load(open(sys.argv[2]))
dst = '/verif/seeded'
for sid in sorted(os.listdir(src)):
    d = os.path.join(src, sid)
    cf = os.path.join(d, 'confirm.json')
    if not os.path.isfile(cf):
        continue
    conf = json.load(open(cf))
    ok = conf['demo_without_patch'] == 0 and conf['apply'] == 0 and conf['build'] == 0 and conf['demo_with_patch'] != 0 and conf['ok_packages'] == 45
    if not ok:
        print('SKIP', sid, conf); continue
    meta = json.load(open(os.path.join(d, 'meta.json')))
    hits = matrix.get(sid, {})
    meta['id'] = sid
    meta['demo_cmd'] = 'seeded/%s/demo/run.sh <repo-root>' % sid
    meta['caught_by'] = sorted(hits)
    meta['reporting_obligations'] = {p: ks[:4] for p, ks in sorted(hits.items())}
    meta['confirmed_by_me'] = {
        'how': 'tools/confirm_seed.sh in a scratch worktree of /repo under /tmp (removed afterwards): demo on the pristine worktree, git apply patch.diff, go build ./..., demo again, then the baseline test command (count of ok packages)',
        'demo_exit_without_patch': conf['demo_without_patch'], 'demo_exit_with_patch': conf['demo_with_patch'],
        'build_exit': conf['build'], 'ok_packages_with_patch': conf['ok_packages'], 'ok_packages_baseline': 45,
        'checks_run': 'tools/seedmatrix.py: git -C /repo apply patch.diff; lincheck -property all -tier quick; git -C /repo checkout -- .'}
    o = os.path.join(dst, sid)
    shutil.rmtree(o, ignore_errors=True)
    os.makedirs(o)
    shutil.copy(os.path.join(d, 'patch.diff'), o)
    shutil.copytree(os.path.join(d, 'demo'), os.path.join(o, 'demo'))
    json.dump(meta, open(os.path.join(o, 'meta.json'), 'w'), indent=1)
    print('installed', sid, meta['caught_by'])
