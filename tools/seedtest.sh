#!/bin/sh
# usage: tools/seedtest.sh <patch.diff> <property list, comma separated | all>
# applies a seeded change to /repo, runs the static checks, restores /repo. Prints CAUGHT/MISSED.
P="$1"; PROPS="${2:-all}"
cd /verif || exit 2
git -C /repo diff --quiet || { echo "/repo is dirty, refusing"; exit 2; }
git -C /repo apply "$P" || { echo "patch does not apply"; exit 2; }
OUT=$(VERIF_OUT=/tmp/seedtest-ev ./bin/lincheck -property "$PROPS" -tier quick -repo /repo -out /tmp/seedtest-ev -known /verif/known_findings.json 2>&1)
RC=$?
git -C /repo checkout -- . 
echo "$OUT" | grep -E "^[a-z].*: [A-Z-]+ C[0-9]+/|VIOLATION|KNOWN|obligations" | grep -v "^VIOLATION" | head -${SEED_LINES:-12}
if echo "$OUT" | grep -q "^VIOLATION"; then echo "==> CAUGHT ($P) rc=$RC"; else echo "==> MISSED ($P) rc=$RC"; fi
