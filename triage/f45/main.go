// F45 triage: the follower side of replication. The leader re-sends position i on a new stream (after a Recv error it
// abandons the old stream without waiting for the server side) while the handler of the old stream still holds its request for
// position i: two handler goroutines offer the same position to Partition.ReplicaLog at once. Exactly one copy of the record
// may be appended.
package main

import (
	"context"
	"fmt"
	"os"
	"path/filepath"
	"sync"

	commontimeutil "github.com/lindb/common/pkg/timeutil"

	"github.com/lindb/lindb/models"
	"github.com/lindb/lindb/pkg/option"
	"github.com/lindb/lindb/pkg/queue"
	"github.com/lindb/lindb/pkg/timeutil"
	"github.com/lindb/lindb/replica"
	"github.com/lindb/lindb/tsdb"
)

type fakeDB struct {
	tsdb.Database
	opt *option.DatabaseOption
}

func (d *fakeDB) Name() string                      { return "db" }
func (d *fakeDB) GetOption() *option.DatabaseOption { return d.opt }

type fakeShard struct {
	tsdb.Shard
	db *fakeDB
}

func (s *fakeShard) Database() tsdb.Database { return s.db }
func (s *fakeShard) ShardID() models.ShardID { return 1 }

type fakeFamily struct {
	tsdb.DataFamily
	start int64
}

func (f *fakeFamily) FamilyTime() int64 { return f.start }
func (f *fakeFamily) TimeRange() timeutil.TimeRange {
	return timeutil.TimeRange{Start: f.start, End: f.start + commontimeutil.OneHour}
}
func (f *fakeFamily) AckSequence(int32, func(int64)) {}
func (f *fakeFamily) Retain()                        {}
func (f *fakeFamily) Release()                       {}

func main() {
	root, err := os.MkdirTemp("", "f45-")
	if err != nil {
		panic(err)
	}
	defer os.RemoveAll(root)
	q, err := queue.NewFanOutQueue(filepath.Join(root, "follower"), 0)
	if err != nil {
		panic(err)
	}
	now := commontimeutil.Now()
	p := replica.NewPartition(context.Background(), &fakeShard{db: &fakeDB{opt: &option.DatabaseOption{}}},
		&fakeFamily{start: now - now%commontimeutil.OneHour}, models.NodeID(2), q, nil, nil)
	defer p.Close()

	const rounds = 20000
	doubles := 0
	firstBad := int64(-1)
	for r := 0; r < rounds; r++ {
		next := p.ReplicaAckIndex() + 1 // the position the follower lacks
		msg := []byte(fmt.Sprintf("message-#%06d", next))
		var wg sync.WaitGroup
		start := make(chan struct{})
		for g := 0; g < 2; g++ { // the old stream's handler and the new stream's handler
			wg.Add(1)
			go func() {
				defer wg.Done()
				<-start
				_, _ = p.ReplicaLog(next, msg)
			}()
		}
		close(start)
		wg.Wait()
		if got := p.ReplicaAckIndex(); got != next {
			doubles++
			if firstBad < 0 {
				firstBad = next
				fmt.Printf("[obs] position %d offered by two streams at once: follower appended up to %d (two copies)\n", next, got)
			}
		}
	}
	fmt.Printf("[obs] %d rounds, %d round(s) appended the offered record twice\n", rounds, doubles)
	if doubles > 0 {
		a, _ := q.Queue().Get(firstBad)
		b, _ := q.Queue().Get(firstBad + 1)
		fmt.Printf("[obs] follower position %d = %q, position %d = %q (the leader's position %d holds a different record)\n", firstBad, a, firstBad+1, b, firstBad+1)
		fmt.Println("FAIL: the follower's log holds a record at a position the leader did not store it at")
		os.Exit(1)
	}
	fmt.Println("PASS: one copy per offered position")
}
