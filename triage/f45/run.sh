#!/usr/bin/env bash
# one-off triage harness for F45 (not a registered check); a race: 20000 rounds
# exit 0 = one copy per position, exit 1 = a record offered twice was appended twice
set -u
export GOFLAGS=-mod=mod GOPROXY=off GOSUMDB=off GOTOOLCHAIN=local TZ=UTC
ROOT="${1:-/repo}"; HERE="$(cd "$(dirname "$0")" && pwd)"
DEMO_DIR="$ROOT/zz_triage_f45"
cleanup() { rm -rf "$DEMO_DIR"; }
trap cleanup EXIT
mkdir -p "$DEMO_DIR"; cp "$HERE/main.go" "$DEMO_DIR/"
cd "$ROOT" && timeout 600 go run ./zz_triage_f45 2>&1 | grep -E '^\[obs\]|^PASS|^FAIL|^panic|\.go:[0-9]+:[0-9]+:' | head -20
exit ${PIPESTATUS[0]}
