// F54 triage (C19); program written by a seeding sub-agent (C19 observations O1 / O2, round 8).
// Reproductions of two observations on the UNCHANGED tree (see C19-observations.md, O1 and O2).
// Everything below query.NewExecutePipeline / stage.NewShardScanStage / concurrent.NewPool is real lindb code.
//
// exit 1 if at least one of the violations is reproduced, exit 0 otherwise.
package main

import (
	"context"
	"fmt"
	"os"
	"time"

	commonmodels "github.com/lindb/common/models"

	"github.com/lindb/lindb/flow"
	"github.com/lindb/lindb/internal/concurrent"
	"github.com/lindb/lindb/internal/linmetric"
	"github.com/lindb/lindb/metrics"
	"github.com/lindb/lindb/models"
	"github.com/lindb/lindb/pkg/timeutil"
	protoCommonV1 "github.com/lindb/lindb/proto/gen/v1/common"
	"github.com/lindb/lindb/query"
	queryctx "github.com/lindb/lindb/query/context"
	"github.com/lindb/lindb/query/stage"
	trackerpkg "github.com/lindb/lindb/query/tracker"
	stmtpkg "github.com/lindb/lindb/sql/stmt"
	"github.com/lindb/lindb/tsdb"
)

type fakeDB struct {
	tsdb.Database
	pools *tsdb.ExecutorPool
}

func (db *fakeDB) ExecutorPool() *tsdb.ExecutorPool { return db.pools }

type fakeShard struct{ tsdb.Shard }

func (s *fakeShard) ShardID() models.ShardID { return 1 }
func (s *fakeShard) GetDataFamilies(timeutil.IntervalType, timeutil.TimeRange) []tsdb.DataFamily {
	return nil
}

func newPool(name string) concurrent.Pool {
	return concurrent.NewPool(name, 2, time.Second, metrics.NewConcurrentStatistics(name, linmetric.BrokerRegistry))
}

// o1: the deadline of the leaf task passes before the (pooled) shard scan stage is submitted:
// Pool.Submit drops the task silently, the stage stays pending for ever.
func o1() bool {
	taskCtx := flow.NewTaskContextWithTimeout(context.Background(), time.Minute)
	tracker := trackerpkg.NewStageTracker(taskCtx)
	db := &fakeDB{pools: &tsdb.ExecutorPool{Filtering: newPool("o1-f"), Grouping: newPool("o1-g"), Scanner: newPool("o1-s")}}
	q := &stmtpkg.Query{MetricName: "cpu", Interval: 10000, StorageInterval: 10000, IntervalRatio: 1}
	leafCtx := queryctx.NewLeafExecuteContext(taskCtx, tracker, q, &protoCommonV1.TaskRequest{RequestID: "o1"},
		nil, &models.Target{Indicator: "leaf", ShardIDs: []models.ShardID{1}}, []string{"root"}, db)
	shardCtx := flow.NewShardExecuteContext(leafCtx.StorageExecuteCtx)

	done := make(chan error, 2)
	pipeline := query.NewExecutePipeline(tracker, func(err error) { done <- err })

	taskCtx.Cancel() // == deadline exceeded / client gone
	pipeline.Execute(stage.NewShardScanStage(leafCtx, shardCtx, &fakeShard{}))
	select {
	case err := <-done:
		fmt.Printf("O1: pipeline completed, err=%v\n", err)
		return false
	case <-time.After(3 * time.Second):
		fmt.Printf("O1 REPRODUCED: the task of the shard scan stage was rejected by the pool, "+
			"the pipeline never signals completion(no response), stages: %s\n", states(pipeline.Stats()))
		return true
	}
}

// hookStage is a stage whose Complete hook panics(like a panic in the grouping tag value collect
// which shardScanStage/groupingStage run in their Complete hook).
type hookStage struct{}

func (s *hookStage) Identifier() string                  { return "hook" }
func (s *hookStage) Stats() []*commonmodels.OperatorStats { return nil }
func (s *hookStage) Type() stage.Type                     { return stage.Unknown }
func (s *hookStage) Plan() stage.PlanNode                 { return nil }
func (s *hookStage) NextStages() []stage.Stage            { return nil }
func (s *hookStage) Execute(_ stage.PlanNode, completeHandle func(), _ func(err error)) {
	completeHandle()
}
func (s *hookStage) Complete()     { panic("panic in Complete hook of stage") }
func (s *hookStage) IsAsync() bool { return false }

// o2: completeStage calls stage.Stats()/stage.Complete() while holding the state machine's mutex without defer,
// the panic leaves the mutex locked, the recover of pipeline.executeStage calls completeStage again => self dead lock.
func o2() bool {
	taskCtx := flow.NewTaskContextWithTimeout(context.Background(), time.Minute)
	done := make(chan error, 2)
	returned := make(chan struct{})
	pipeline := query.NewExecutePipeline(trackerpkg.NewStageTracker(taskCtx), func(err error) { done <- err })
	go func() {
		pipeline.Execute(&hookStage{})
		close(returned)
	}()
	select {
	case err := <-done:
		fmt.Printf("O2: pipeline completed, err=%v\n", err)
		return false
	case <-time.After(3 * time.Second):
		stuck := true
		select {
		case <-returned:
			stuck = false
		default:
		}
		fmt.Printf("O2 REPRODUCED: Complete hook panicked, pipeline never signals completion, "+
			"goroutine of Pipeline.Execute stuck in completeStage(mutex): %v\n", stuck)
		return true
	}
}

func states(stages []*commonmodels.StageStats) string {
	rs := ""
	for _, s := range stages {
		rs += fmt.Sprintf("[%s: %s]", s.Identifier, s.State)
	}
	return rs
}

func main() {
	// F54 triage: only O2 (a panicking Complete hook leaves the state mutex locked); O1 (Pool.Submit drops a task on a done
	// context) is a recorded observation, run it with the argument "o1"
	if len(os.Args) > 1 && os.Args[1] == "o1" {
		if o1() {
			os.Exit(1)
		}
		return
	}
	if o2() {
		os.Exit(1)
	}
	fmt.Println("PASS: the pipeline completed although the stage's Complete hook panicked")
}
