#!/bin/sh
# one-off triage harness for F54 (not a registered check). exit 1 = the pipeline never completes after a panicking Complete hook
set -u
ROOT=$(cd "${1:-/repo}" && pwd); HERE=$(cd "$(dirname "$0")" && pwd)
export GOFLAGS=-mod=mod GOPROXY=off GOSUMDB=off GOTOOLCHAIN=local
DEMO_DIR="$ROOT/zz_triage_f54"
trap 'rm -rf "$DEMO_DIR"' EXIT
mkdir -p "$DEMO_DIR"; cp "$HERE/main.go" "$DEMO_DIR/main.go"
cd "$ROOT" && go run ./zz_triage_f54 ${2:-} > /tmp/f54.log 2>&1; rc=$?; grep -v "INFO\|WARN\|ERROR" /tmp/f54.log | tail -4; rm -f /tmp/f54.log; exit $rc
