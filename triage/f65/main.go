// F65 triage (C14): TSDDecoder.Seek stops at the first empty slot; the slot-addressed read disagrees with the sequential one.
// Exported API only.  exit 1 = disagreement.
package main

import (
	"fmt"
	"math"
	"os"

	"github.com/lindb/lindb/pkg/bit"
	"github.com/lindb/lindb/pkg/encoding"
)

func main() {
	// block starting at slot 10: 10 -> 1, 11 empty, 12 -> 3, 13 -> 4
	enc := encoding.NewTSDEncoder(10)
	enc.AppendTime(bit.One)
	enc.AppendValue(math.Float64bits(1))
	enc.AppendTime(bit.Zero)
	enc.AppendTime(bit.One)
	enc.AppendValue(math.Float64bits(3))
	enc.AppendTime(bit.One)
	enc.AppendValue(math.Float64bits(4))
	data, err := enc.Bytes()
	if err != nil {
		panic(err)
	}
	block := append([]byte{}, data...)

	// sequential read
	want := map[uint16]float64{}
	dec := encoding.NewTSDDecoder(block)
	for dec.Next() {
		if dec.HasValue() {
			want[dec.Slot()] = math.Float64frombits(dec.Value())
		}
	}
	fmt.Println("sequential:", want)
	bad := 0
	for slot := uint16(10); slot <= 13; slot++ {
		d := encoding.NewTSDDecoder(block)
		found := d.Seek(slot)
		v, has := d.GetValue(slot)
		wv, whas := want[slot]
		if !found || has != whas || (has && v != wv) {
			fmt.Printf("Seek(%d) = %v, then GetValue(%d) = %v,%v; sequential read says %v,%v\n", slot, found, slot, v, has, wv, whas)
			bad++
		}
	}
	if bad > 0 {
		fmt.Println("FAIL")
		os.Exit(1)
	}
	fmt.Println("PASS")
}
