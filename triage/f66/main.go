// F66 triage (C16): the protobuf converter accepts NaN / Inf inside a histogram (compound field); the flat form of the very
// same metric is rejected.  Exported API only.  exit 1 = an invalid metric was accepted.
package main

import (
	"fmt"
	"math"
	"os"

	protoMetricsV1 "github.com/lindb/common/proto/gen/v1/linmetrics"
	commonseries "github.com/lindb/common/series"

	"github.com/lindb/lindb/models"
	"github.com/lindb/lindb/series/metric"
)

func main() {
	nan, inf := math.NaN(), math.Inf(1)
	type hist struct {
		name                 string
		min, max, sum, count float64
		values, bounds       []float64
		valid                bool
	}
	cases := []hist{
		{"valid", 1, 5, 9, 3, []float64{1, 1, 1}, []float64{1, 5, inf}, true},
		{"NaN value", 1, 5, 9, 3, []float64{nan, 1, 1}, []float64{1, 5, inf}, false},
		{"+Inf value", 1, 5, 9, 3, []float64{1, inf, 1}, []float64{1, 5, inf}, false},
		{"NaN sum", 1, 5, nan, 3, []float64{1, 1, 1}, []float64{1, 5, inf}, false},
		{"NaN min", nan, 5, 9, 3, []float64{1, 1, 1}, []float64{1, 5, inf}, false},
		{"NaN max", 1, nan, 9, 3, []float64{1, 1, 1}, []float64{1, 5, inf}, false},
		{"NaN count", 1, 5, 9, nan, []float64{1, 1, 1}, []float64{1, 5, inf}, false},
	}
	bad := 0
	for _, h := range cases {
		cvt := metric.NewProtoConverter(models.NewDefaultLimits())
		var r metric.BrokerRow
		perr := cvt.ConvertTo(&protoMetricsV1.Metric{Name: "h", Timestamp: 1, CompoundField: &protoMetricsV1.CompoundField{
			Min: h.min, Max: h.max, Sum: h.sum, Count: h.count, Values: h.values, ExplicitBounds: h.bounds}}, &r)
		// the flat form of the same histogram, as the flat decoder rebuilds it
		rb := commonseries.CreateRowBuilder()
		ferr := rb.AddCompoundFieldData(h.values, h.bounds)
		if ferr == nil {
			ferr = rb.AddCompoundFieldMMSC(h.min, h.max, h.sum, h.count)
		}
		fmt.Printf("%-10s proto accepted=%v flat accepted=%v\n", h.name, perr == nil, ferr == nil)
		if (perr == nil) != h.valid {
			bad++
		}
	}
	if bad > 0 {
		fmt.Printf("FAIL: %d invalid histograms accepted in protobuf form\n", bad)
		os.Exit(1)
	}
	fmt.Println("PASS")
}
