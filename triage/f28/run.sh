#!/usr/bin/env bash
# one-off triage harness for F28 (not a registered check); harness and scenario written by a seeding sub-agent (C07 observation OBS-2).
# exit 0 = entry applied once, exit 1 = the persisted entry is replayed and applied again
set -u
export GOFLAGS=-mod=mod GOPROXY=off GOSUMDB=off GOTOOLCHAIN=local
ROOT="${1:-/repo}"; HERE="$(cd "$(dirname "$0")" && pwd)"
DEMO_DIR="$ROOT/zz_triage_f28"; WORK="$(mktemp -d /tmp/f28-XXXXXX)"
cleanup() { rm -rf "$DEMO_DIR" "$WORK"; }
trap cleanup EXIT
mkdir -p "$DEMO_DIR"; cp "$HERE/main.go" "$HERE/harness.go" "$DEMO_DIR/"
(cd "$ROOT" && go build -o "$WORK/demo" ./zz_triage_f28/) || { echo "build failed"; exit 2; }
FILTER='^\[|^PASS|^FAIL|^DEMO-ERROR|^panic'
mkdir -p "$WORK/node"
(cd "$WORK" && "$WORK/demo" write "$WORK/node") > "$WORK/write.log" 2>&1; rc=$?
grep -E "$FILTER" "$WORK/write.log"
[ $rc -eq 0 ] || { echo "write phase exit $rc"; tail -20 "$WORK/write.log"; exit 2; }
(cd "$WORK" && "$WORK/demo" recover "$WORK/node") > "$WORK/recover.log" 2>&1; rc=$?
grep -E "$FILTER" "$WORK/recover.log" | head -12
exit $rc
