package main

import (
	"bytes"
	"fmt"
	"os"
	"time"

	protoMetricsV1 "github.com/lindb/common/proto/gen/v1/linmetrics"

	"github.com/lindb/lindb/models"
	"github.com/lindb/lindb/pkg/compress"
	"github.com/lindb/lindb/series/metric"
)

const hosts = 30000

// batch builds one log entry with `hosts` rows cpu{host=h<i>} f1=1.
func (n *node) batch() []byte {
	buf := &bytes.Buffer{}
	converter := metric.NewProtoConverter(models.NewDefaultLimits())
	for i := 0; i < hosts; i++ {
		var row metric.BrokerRow
		if err := converter.ConvertTo(&protoMetricsV1.Metric{
			Namespace: nsName, Name: metricName, Timestamp: n.pointTime,
			Tags: []*protoMetricsV1.KeyValue{{Key: tagKey, Value: fmt.Sprintf("h%d", i)}},
			SimpleFields: []*protoMetricsV1.SimpleField{
				{Name: fieldName, Type: protoMetricsV1.SimpleFieldType_DELTA_SUM, Value: 1},
			},
		}, &row); err != nil {
			die("convert: %v", err)
		}
		if _, err := row.WriteTo(buf); err != nil {
			die("write: %v", err)
		}
	}
	w := compress.NewSnappyWriter()
	_, _ = w.Write(buf.Bytes())
	_ = w.Close()
	return append([]byte(nil), w.Bytes()...)
}

func phaseWrite(root string) {
	n := startNode(root, false)
	n.openPartition()
	msg := n.batch()
	n.appendLog(msg) // seq 0
	n.waitDrained()
	for n.family.GetState().ReplicaSequences[int32(nodeID)] != 0 || len(n.family.GetState().ReplicaSequences) == 0 {
		time.Sleep(10 * time.Millisecond) // wait until seq 0 is committed to the family
	}
	n.flushAll()
	fmt.Printf("[write] seq 0 flushed: family=%v\n", n.family.GetState().AckSequences)

	n.appendLog(msg) // seq 1: same series again
	// wait until the replicator is in the middle of WriteRows of seq 1
	deadline := time.Now().Add(20 * time.Second)
	for {
		st := n.family.GetState()
		inFlight := false
		for _, m := range st.MemoryDatabases {
			if m.State == "mutable" && m.NumOfSeries > 0 {
				inFlight = true
			}
		}
		if inFlight {
			fmt.Printf("[write] seq 1 is being written (mutable memdb has series), family applied=%v -> flush job starts now\n", st.ReplicaSequences)
			break
		}
		if time.Now().After(deadline) {
			die("never saw the write in flight")
		}
	}
	n.flushAll()
	appended, consumed, acked, _ := n.peer()
	snapshot := n.family.Family().GetSnapshot()
	stored := snapshot.GetCurrent().GetSequences()
	snapshot.Close()
	fmt.Printf("[write] flush done: manifest sequence=%v log appended=%d consumed=%d acked=%d\n", stored, appended, consumed, acked)
	fmt.Println("[write] NODE DIES")
	os.Exit(0)
}

func phaseRecover(root string) int {
	n := startNode(root, true)
	n.openPartition()
	n.waitDrained()
	time.Sleep(2 * time.Second)
	n.flushAll()
	bad := 0
	for _, i := range []int{0, 1, hosts / 2, hosts - 1} {
		sum, found := n.query(i)
		fmt.Printf("[recover] cpu{host=h%d}: found=%v sum=%v (want 2: one point from seq 0, one from seq 1)\n", i, found, sum)
		if !found || sum != 2 {
			bad++
		}
	}
	if bad > 0 {
		fmt.Println("FAIL")
		return 1
	}
	fmt.Println("PASS")
	return 0
}

func main() {
	switch os.Args[1] {
	case "write":
		phaseWrite(os.Args[2])
	case "recover":
		os.Exit(phaseRecover(os.Args[2]))
	}
}
