package main

import (
	"bytes"
	"fmt"
	"os"
	"os/exec"
	"time"

	protoMetricsV1 "github.com/lindb/common/proto/gen/v1/linmetrics"

	"github.com/lindb/lindb/config"
	"github.com/lindb/lindb/models"
	"github.com/lindb/lindb/pkg/option"
	"github.com/lindb/lindb/pkg/timeutil"
	"github.com/lindb/lindb/series/metric"
	"github.com/lindb/lindb/tsdb"
)

func rows(name string, ts int64) []*metric.StorageRow {
	ml := protoMetricsV1.MetricList{Metrics: []*protoMetricsV1.Metric{{
		Namespace: "ns", Name: name, Timestamp: ts,
		Tags:         []*protoMetricsV1.KeyValue{{Key: "host", Value: "h1"}},
		SimpleFields: []*protoMetricsV1.SimpleField{{Name: "f1", Value: 1.0, Type: protoMetricsV1.SimpleFieldType_DELTA_SUM}},
	}}}
	var buf bytes.Buffer
	converter := metric.NewProtoConverter(models.NewDefaultLimits())
	_, _ = converter.MarshalProtoMetricListV1To(ml, &buf)
	var br metric.StorageBatchRows
	br.UnmarshalRows(buf.Bytes())
	return br.Rows()
}

func open(dir string) (tsdb.Engine, tsdb.Database, tsdb.Shard) {
	cfg := config.NewDefaultStorageBase()
	cfg.TSDB.Dir = dir
	config.SetGlobalStorageConfig(cfg)
	engine, err := tsdb.NewEngine()
	if err != nil {
		panic(err)
	}
	opt := &option.DatabaseOption{Intervals: option.Intervals{{Interval: timeutil.Interval(10 * 1000), Retention: timeutil.Interval(30 * 24 * 3600 * 1000)}}, AutoCreateNS: true}
	if err := engine.CreateShards("db", opt, models.ShardID(1)); err != nil {
		panic(err)
	}
	db, _ := engine.GetDatabase("db")
	shard, _ := db.GetShard(models.ShardID(1))
	return engine, db, shard
}

func main() {
	dir, _ := os.MkdirTemp("", "f8live")
	img, _ := os.MkdirTemp("", "f8img")
	defer os.RemoveAll(dir)
	defer os.RemoveAll(img)

	_, db, shard := open(dir)
	interval := timeutil.Interval(10 * 1000)
	now := time.Now().UnixMilli()
	familyTime := interval.Calculator().CalcFamilyTime(now)
	f, err := shard.GetOrCrateDataFamily(familyTime)
	if err != nil {
		panic(err)
	}
	const leader = int32(1)
	acked := int64(-1)
	f.AckSequence(leader, func(seq int64) { acked = seq })

	// WAL entry 0: metric "old"
	if err := f.WriteRows(rows("old", now)); err != nil {
		panic(err)
	}
	f.CommitSequence(leader, 0)

	// the flush cycle of dataFlushChecker.doFlush/flushShard, step by step:
	if err := db.FlushMeta(); err != nil { // 1. metadata
		panic(err)
	}
	db.WaitFlushMetaCompleted()
	if err := shard.FlushIndex(); err != nil { // 2. index
		panic(err)
	}
	shard.WaitFlushIndexCompleted()

	// ... a write of a brand-new metric lands between step 2 and step 3 (WAL entry 1)
	if err := f.WriteRows(rows("newM", now)); err != nil {
		panic(err)
	}
	f.CommitSequence(leader, 1)
	newID, _ := db.MetaDB().GetMetricID("ns", "newM")

	if err := f.Flush(); err != nil { // 3. family data
		panic(err)
	}
	fmt.Printf("live node: metric newM has id %d; WAL acknowledged up to seq %d after the family flush\n", newID, acked)

	// crash: image of the data directory as the file system sees it now
	if out, err := exec.Command("cp", "-r", dir+"/.", img).CombinedOutput(); err != nil {
		panic(string(out))
	}

	// restart on the image
	_, db2, shard2 := open(img)
	_, err = db2.MetaDB().GetMetricID("ns", "newM")
	fmt.Printf("recovered node: lookup of newM -> %v\n", err)
	otherID, _ := db2.MetaDB().GenMetricID([]byte("ns"), []byte("someOtherMetric"))
	fmt.Printf("recovered node: a different, newly created metric gets id %d (newM's id was %d)\n", otherID, newID)
	f2, _ := shard2.GetOrCrateDataFamily(familyTime)
	snap := f2.Family().GetSnapshot()
	n := 0
	_ = snap.Load(uint32(newID), func(v []byte) error { n += len(v); return nil })
	snap.Close()
	fmt.Printf("recovered node: flushed data stored under id %d: %d bytes (written for newM, WAL entry 1 was acked, so it is never replayed)\n", newID, n)
}
