#!/bin/sh
# one-off triage harness for F31 (not a registered check); runs from inside <root> (the harness fakes tsdb.Shard / Database)
export GOFLAGS=-mod=mod GOPROXY=off GOSUMDB=off GOTOOLCHAIN=local
HERE="$(cd "$(dirname "$0")" && pwd)"; ROOT="${1:-/repo}"
cleanup() { rm -rf "$ROOT/zz_triage_f31"; }
trap cleanup EXIT
mkdir -p "$ROOT/zz_triage_f31" && cp "$HERE"/main.go "$HERE"/harness.go "$ROOT/zz_triage_f31/"
cd "$ROOT" && timeout 300 go run ./zz_triage_f31 2>&1 | grep -v -E '\s(INFO|WARN)\s' | tail -14
