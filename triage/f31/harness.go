package main

// Shared demo harness for property C10: drives the real dictionaries / posting lists /
// forward index through the real query operators and compares with brute force evaluation.

import (
	"bytes"
	"encoding/binary"
	"fmt"
	"os"
	"path"
	"regexp"
	"sort"
	"strings"
	"time"

	protoMetricsV1 "github.com/lindb/common/proto/gen/v1/linmetrics"
	"github.com/lindb/roaring"

	"github.com/lindb/lindb/aggregation"
	"github.com/lindb/lindb/flow"
	"github.com/lindb/lindb/index"
	"github.com/lindb/lindb/kv"
	"github.com/lindb/lindb/models"
	"github.com/lindb/lindb/query/operator"
	"github.com/lindb/lindb/series/field"
	"github.com/lindb/lindb/series/metric"
	"github.com/lindb/lindb/series/tag"
	"github.com/lindb/lindb/sql/stmt"
	"github.com/lindb/lindb/tsdb"
)

// fakeDatabase only provides MetaDB (all what tag values lookup needs).
type fakeDatabase struct {
	tsdb.Database
	meta index.MetricMetaDatabase
}

func (d *fakeDatabase) MetaDB() index.MetricMetaDatabase { return d.meta }

// fakeShard only provides IndexDB (all what series filtering/grouping build need).
type fakeShard struct {
	tsdb.Shard
	idx index.MetricIndexDatabase
}

func (s *fakeShard) IndexDB() index.MetricIndexDatabase { return s.idx }

type env struct {
	dir      string
	indexDir string
	metaDB   index.MetricMetaDatabase
	indexDB  index.MetricIndexDatabase
	metricID metric.ID
	// brute force model: series id => tags
	model map[uint32]map[string]string

	failures int
}

func newEnv() *env {
	dir, err := os.MkdirTemp("", "c10-demo-")
	must(err)
	metaDB, err := index.NewMetricMetaDatabase("c10", path.Join(dir, "meta"))
	must(err)
	indexDir := path.Join(dir, "index")
	indexDB, err := index.NewMetricIndexDatabase(indexDir, metaDB)
	must(err)
	metricID, err := metaDB.GenMetricID([]byte("ns"), []byte("cpu"))
	must(err)
	return &env{
		dir: dir, indexDir: indexDir, metaDB: metaDB, indexDB: indexDB, metricID: metricID,
		model: make(map[uint32]map[string]string),
	}
}

func (e *env) close() {
	_ = e.indexDB.Close()
	_ = e.metaDB.Close()
	_ = os.RemoveAll(e.dir)
}

func must(err error) {
	if err != nil {
		fmt.Println("UNEXPECTED ERROR:", err)
		os.Exit(2)
	}
}

// write writes a series with tags(sorted key/value pairs: k1,v1,k2,v2...).
func (e *env) write(kvs ...string) uint32 {
	m := &protoMetricsV1.Metric{
		Name: "cpu", Namespace: "ns",
		SimpleFields: []*protoMetricsV1.SimpleField{
			{Name: "f1", Type: protoMetricsV1.SimpleFieldType_DELTA_SUM, Value: 1},
		},
	}
	tags := make(map[string]string)
	for i := 0; i < len(kvs); i += 2 {
		m.Tags = append(m.Tags, &protoMetricsV1.KeyValue{Key: kvs[i], Value: kvs[i+1]})
		tags[kvs[i]] = kvs[i+1]
	}
	var ml protoMetricsV1.MetricList
	ml.Metrics = append(ml.Metrics, m)
	var buf bytes.Buffer
	converter := metric.NewProtoConverter(models.NewDefaultLimits())
	_, err := converter.MarshalProtoMetricListV1To(ml, &buf)
	must(err)
	var br metric.StorageBatchRows
	br.UnmarshalRows(buf.Bytes())
	seriesID, err := e.indexDB.GenSeriesID(e.metricID, br.Rows()[0])
	must(err)
	if old, ok := e.model[seriesID]; ok && !sameTags(old, tags) {
		fmt.Printf("FAIL: series id %d is shared by %v and %v\n", seriesID, old, tags)
		e.failures++
	}
	e.model[seriesID] = tags
	return seriesID
}

func sameTags(a, b map[string]string) bool {
	if len(a) != len(b) {
		return false
	}
	for k, v := range a {
		if b[k] != v {
			return false
		}
	}
	return true
}

func (e *env) prepareFlush() {
	e.metaDB.PrepareFlush()
	e.indexDB.PrepareFlush()
}

func (e *env) doFlush() {
	must(e.metaDB.Flush())
	must(e.indexDB.Flush())
}

func (e *env) flush() {
	e.prepareFlush()
	e.doFlush()
}

// compact compacts the given family of the given store, waits until level0 has no file.
func compact(storeName, familyName string) {
	store, ok := kv.GetStoreManager().GetStoreByName(storeName)
	if !ok {
		must(fmt.Errorf("store %s not found", storeName))
	}
	family := store.GetFamily(familyName)
	if family == nil {
		must(fmt.Errorf("family %s/%s not found", storeName, familyName))
	}
	level0 := func() int {
		snapshot := family.GetSnapshot()
		defer snapshot.Close()
		return snapshot.GetCurrent().NumberOfFilesInLevel(0)
	}
	if level0() < 2 {
		return
	}
	family.Compact()
	deadline := time.Now().Add(60 * time.Second)
	for level0() != 0 {
		if time.Now().After(deadline) {
			must(fmt.Errorf("compaction of %s/%s does not complete", storeName, familyName))
		}
		time.Sleep(10 * time.Millisecond)
	}
}

func (e *env) compactIndex() {
	for _, f := range []string{"metric", "series", "inverted", "forward"} {
		compact(e.indexDir, f)
	}
}

func (e *env) compactMeta() {
	for _, f := range []string{"ns", "metric", "schema", "tv"} {
		compact(path.Join(e.dir, "meta", "kv"), f)
	}
}

// ---- condition helpers ----

func eq(k, v string) stmt.Expr          { return &stmt.EqualsExpr{Key: k, Value: v} }
func in(k string, vs ...string) stmt.Expr { return &stmt.InExpr{Key: k, Values: vs} }
func like(k, v string) stmt.Expr        { return &stmt.LikeExpr{Key: k, Value: v} }
func re(k, v string) stmt.Expr          { return &stmt.RegexExpr{Key: k, Regexp: v} }
func not(x stmt.Expr) stmt.Expr         { return &stmt.NotExpr{Expr: x} }
func paren(x stmt.Expr) stmt.Expr       { return &stmt.ParenExpr{Expr: x} }
func and(a, b stmt.Expr) stmt.Expr {
	return &stmt.BinaryExpr{Left: a, Right: b, Operator: stmt.AND}
}
func or(a, b stmt.Expr) stmt.Expr {
	return &stmt.BinaryExpr{Left: a, Right: b, Operator: stmt.OR}
}

// eval evaluates the condition on tags of one series(brute force).
// NOTE: same as lindb, "not" only selects series which have the tag key.
func eval(cond stmt.Expr, tags map[string]string) bool {
	switch x := cond.(type) {
	case *stmt.EqualsExpr:
		v, ok := tags[x.Key]
		return ok && v == x.Value
	case *stmt.InExpr:
		v, ok := tags[x.Key]
		if !ok {
			return false
		}
		for _, c := range x.Values {
			if c == v {
				return true
			}
		}
		return false
	case *stmt.LikeExpr:
		v, ok := tags[x.Key]
		if !ok {
			return false
		}
		p := x.Value
		hasPrefix, hasSuffix := strings.HasPrefix(p, "*"), strings.HasSuffix(p, "*")
		switch {
		case p == "":
			return false
		case !hasPrefix && hasSuffix:
			return strings.HasPrefix(v, p[:len(p)-1])
		case hasPrefix && !hasSuffix:
			return strings.HasSuffix(v, p[1:])
		case hasPrefix && hasSuffix:
			if len(p) < 2 {
				return true // like '*': all values
			}
			return strings.Contains(v, p[1:len(p)-1])
		default:
			return v == p
		}
	case *stmt.RegexExpr:
		v, ok := tags[x.Key]
		return ok && regexp.MustCompile(x.Regexp).MatchString(v)
	case *stmt.NotExpr:
		inner := x.Expr.(stmt.TagFilter)
		_, ok := tags[inner.TagKey()]
		return ok && !eval(x.Expr, tags)
	case *stmt.ParenExpr:
		return eval(x.Expr, tags)
	case *stmt.BinaryExpr:
		if x.Operator == stmt.AND {
			return eval(x.Left, tags) && eval(x.Right, tags)
		}
		return eval(x.Left, tags) || eval(x.Right, tags)
	}
	panic("unknown expr")
}

// filter selects series through the real operators(tag values lookup + series filtering).
func (e *env) filter(cond stmt.Expr) (*flow.ShardExecuteContext, error) {
	schema, err := e.metaDB.GetSchema(e.metricID)
	if err != nil {
		return nil, err
	}
	storageCtx := &flow.StorageExecuteContext{
		Query:             &stmt.Query{Namespace: "ns", MetricName: "cpu", Condition: cond},
		MetricID:          e.metricID,
		Schema:            schema,
		DownSamplingSpecs: aggregation.AggregatorSpecs{aggregation.NewAggregatorSpec("f1", field.SumField)},
	}
	if err := operator.NewTagValuesLookup(storageCtx, &fakeDatabase{meta: e.metaDB}).Execute(); err != nil {
		return nil, err
	}
	shardCtx := flow.NewShardExecuteContext(storageCtx)
	if err := operator.NewSeriesFiltering(shardCtx, &fakeShard{idx: e.indexDB}).Execute(); err != nil {
		return nil, err
	}
	return shardCtx, nil
}

func (e *env) expected(cond stmt.Expr) []uint32 {
	var rs []uint32
	for id, tags := range e.model {
		if eval(cond, tags) {
			rs = append(rs, id)
		}
	}
	sort.Slice(rs, func(i, j int) bool { return rs[i] < rs[j] })
	return rs
}

func brief(ids []uint32) string {
	if len(ids) <= 12 {
		return fmt.Sprint(ids)
	}
	return fmt.Sprintf("%v...(%d ids)", ids[:12], len(ids))
}

func diff(a, b []uint32) (onlyA, onlyB []uint32) {
	ba, bb := roaring.BitmapOf(a...), roaring.BitmapOf(b...)
	return roaring.AndNot(ba, bb).ToArray(), roaring.AndNot(bb, ba).ToArray()
}

// checkFilter checks that filtering through index == brute force.
func (e *env) checkFilter(stage string, cond stmt.Expr) *flow.ShardExecuteContext {
	shardCtx, err := e.filter(cond)
	if err != nil {
		fmt.Printf("FAIL [%s] where %s: error %v\n", stage, cond.Rewrite(), err)
		e.failures++
		return nil
	}
	got := shardCtx.SeriesIDsAfterFiltering.ToArray()
	want := e.expected(cond)
	missing, extra := diff(want, got)
	if len(missing) > 0 || len(extra) > 0 {
		fmt.Printf("FAIL [%s] where %s: index selects %s, brute force %s (missing=%s extra=%s)\n",
			stage, cond.Rewrite(), brief(got), brief(want), brief(missing), brief(extra))
		e.failures++
	}
	return shardCtx
}

// checkGroupBy checks filtering + group by the given tag keys: each selected series must be
// reported with exactly its own tag values.
func (e *env) checkGroupBy(stage string, cond stmt.Expr, groupBy ...string) {
	shardCtx := e.checkFilter(stage, cond)
	if shardCtx == nil || shardCtx.SeriesIDsAfterFiltering.IsEmpty() {
		return
	}
	storageCtx := shardCtx.StorageExecuteCtx
	var keyIDs []tag.KeyID
	for _, k := range groupBy {
		tm, ok := storageCtx.Schema.TagKeys.Find(k)
		if !ok {
			fmt.Printf("FAIL [%s] group by %s: tag key not in schema\n", stage, k)
			e.failures++
			return
		}
		keyIDs = append(keyIDs, tm.ID)
	}
	storageCtx.GroupByTagKeyIDs = keyIDs
	storageCtx.GroupingTagValueIDs = make([]*roaring.Bitmap, len(keyIDs))
	// all filtered series have data in query time range
	shardCtx.TimeSegmentContext.SeriesIDs = shardCtx.SeriesIDsAfterFiltering.Clone()
	err := operator.NewGroupingContextBuild(shardCtx, &fakeShard{idx: e.indexDB}).Execute()

	// expected: series selected by condition which have all grouping keys
	want := make(map[uint32][]string)
	for _, id := range e.expected(cond) {
		tags := e.model[id]
		var vals []string
		for _, k := range groupBy {
			if v, ok := tags[k]; ok {
				vals = append(vals, v)
			}
		}
		if len(vals) == len(groupBy) {
			want[id] = vals
		}
	}
	if err != nil {
		if len(want) == 0 {
			return // not found
		}
		fmt.Printf("FAIL [%s] where %s group by %v: error %v\n", stage, cond.Rewrite(), groupBy, err)
		e.failures++
		return
	}
	got := make(map[uint32][]uint32) // series => tag value ids
	valueIDs := make([]*roaring.Bitmap, len(keyIDs))
	for i := range valueIDs {
		valueIDs[i] = roaring.New()
	}
	seriesIDs := shardCtx.SeriesIDsAfterFiltering
	for i, highKey := range seriesIDs.GetHighKeys() {
		container := seriesIDs.GetContainerAtIndex(i)
		dataLoadCtx := &flow.DataLoadContext{
			ShardExecuteCtx:       shardCtx,
			SeriesIDHighKey:       highKey,
			LowSeriesIDsContainer: container,
			IsGrouping:            true,
		}
		must(operator.NewGroupingTagsLookup(dataLoadCtx).Execute())
		it := container.PeekableIterator()
		for it.HasNext() {
			low := it.Next()
			seriesID := uint32(highKey)<<16 | uint32(low)
			if len(dataLoadCtx.GroupingSeriesAgg) == 0 {
				got[seriesID] = nil
				continue
			}
			ref := dataLoadCtx.GroupingSeriesAggRefs[low-dataLoadCtx.MinSeriesID]
			key := []byte(dataLoadCtx.GroupingSeriesAgg[ref].Key)
			var ids []uint32
			for k := range keyIDs {
				id := binary.LittleEndian.Uint32(key[k*4:])
				ids = append(ids, id)
				valueIDs[k].Add(id)
			}
			got[seriesID] = ids
		}
	}
	// tag value ids => tag values
	names := make([]map[uint32]string, len(keyIDs))
	for k, keyID := range keyIDs {
		names[k] = make(map[uint32]string)
		must(e.metaDB.CollectTagValues(keyID, valueIDs[k], names[k]))
	}
	bad := 0
	report := func(format string, args ...interface{}) {
		bad++
		if bad <= 5 {
			fmt.Printf("FAIL [%s] where %s group by %v: ", stage, cond.Rewrite(), groupBy)
			fmt.Printf(format, args...)
		}
	}
	for id, ids := range got {
		wantVals, ok := want[id]
		if !ok {
			report("series %d(tags=%v) is returned, but brute force does not select it\n", id, e.model[id])
			continue
		}
		var vals []string
		for k, vid := range ids {
			if name, ok := names[k][vid]; ok {
				vals = append(vals, name)
			} else {
				vals = append(vals, fmt.Sprintf("<unknown tag value id %d>", vid))
			}
		}
		if strings.Join(vals, "\x00") != strings.Join(wantVals, "\x00") {
			report("series %d is grouped under %q, but its tags are %q\n", id, vals, wantVals)
		}
	}
	for id := range want {
		if _, ok := got[id]; !ok {
			report("series %d(tags=%v) is missing in group by result\n", id, e.model[id])
		}
	}
	if bad > 0 {
		if bad > 5 {
			fmt.Printf("     ... %d series are wrong in total\n", bad)
		}
		e.failures++
	}
}

func (e *env) finish() {
	e.close()
	if e.failures > 0 {
		fmt.Printf("RESULT: FAIL, %d check(s) violate C10 (index filtering/grouping != brute force)\n", e.failures)
		os.Exit(1)
	}
	fmt.Println("RESULT: PASS, index filtering/grouping equals brute force evaluation in all stages")
}
