package main

// F31 triage (C10): the result of an atomic tag filter is stored in and read from StorageExecuteContext.TagFilterResult
// under expr.Rewrite() — a plain concatenation that is not injective: `host in ('a,b')` and `host in ('a','b')` both
// rewrite to "host in (a,b)", `host = '~a'` and `host =~ 'a'` both to "host=~a".  Two such atoms in ONE condition share
// one map entry (the later lookup overwrites the earlier), and the series selected differ from evaluating the condition.
// (The harness — real dictionaries, index and operators against a brute-force evaluation — is the one a seeding sub-agent
// wrote for its C10 demonstrations; the scenario follows that agent's observation.)
import "github.com/lindb/lindb/sql/stmt"

func main() {
	e := newEnv()
	for _, h := range []string{"a", "b", "a,b", "~a", "xa"} {
		e.write("host", h)
	}
	for _, cond := range []stmt.Expr{
		or(in("host", "a,b"), in("host", "a", "b")),
		or(in("host", "a", "b"), in("host", "a,b")),
		and(re("host", "a"), not(eq("host", "~a"))),
		// controls
		in("host", "a,b"),
		in("host", "a", "b"),
		re("host", "a"),
	} {
		e.checkFilter("memory", cond)
	}
	e.finish()
}
