package main

// F35 triage (C06): a consumer group that is stopped (closed and dropped from the fan-out queue's map, its positions stay on
// disk) while the log is reset BACKWARDS (FanOutQueue.SetAppendedSeq resets only the groups currently in the map) comes back
// from GetOrCreateConsumerGroup with its old positions: acknowledged = consumed = 99 although appended = 49.  NewConsumerGroup
// lifts the loaded positions to the queue-wide ack but never caps them at the appended sequence: ack <= consumed <= appended
// is broken for good (Consume hands out 100, 101, … for a log that ends at 49 and whose next messages 50.. it will never see).
import (
	"fmt"
	"os"
	"path/filepath"

	"github.com/lindb/lindb/pkg/queue"
)

func must(err error) {
	if err != nil {
		panic(err)
	}
}

func main() {
	dir, _ := os.MkdirTemp("", "f35-")
	defer os.RemoveAll(dir)
	fq, err := queue.NewFanOutQueue(filepath.Join(dir, "q"), 128*1024*1024)
	must(err)
	defer fq.Close()
	g, err := fq.GetOrCreateConsumerGroup("follower")
	must(err)
	for i := 0; i < 100; i++ {
		must(fq.Queue().Put([]byte(fmt.Sprintf("m%03d", i))))
	}
	for i := 0; i < 100; i++ {
		s := g.Consume()
		g.Ack(s)
	}
	fmt.Printf("before: appended=%d group consumed=%d ack=%d\n", fq.Queue().AppendedSeq(), g.ConsumedSeq(), g.AcknowledgedSeq())
	fq.StopConsumerGroup("follower") // e.g. partition.stopReplicator: no data to consume
	fq.SetAppendedSeq(49)            // index reset of the handshake: the log now ends at 49
	g2, err := fq.GetOrCreateConsumerGroup("follower")
	must(err)
	app, cons, ack := fq.Queue().AppendedSeq(), g2.ConsumedSeq(), g2.AcknowledgedSeq()
	fmt.Printf("after stop / reset to 49 / re-create: appended=%d group consumed=%d ack=%d\n", app, cons, ack)
	if !(ack <= cons && cons <= app) {
		fmt.Println("FAIL: acknowledged <= consumed <= appended does not hold for the re-created group")
		os.Exit(1)
	}
	fmt.Println("PASS")
}
