package main

// F34 triage (C11 / C12): fieldAggregator.Aggregate merges the PARTIAL result of another aggregator (leaf reduce, intermediate,
// root — the root merges even a single leaf's answer).  The partial result has one primitive series per aggregate type
// (e.g. Sum and Max for `select sum(f), max(f)`), but Aggregate folds EVERY incoming value into EVERY aggregate type of the
// target and ignores the incoming series' own type: the Max series is added into the Sum series and vice versa.
import (
	"fmt"
	"os"

	"github.com/lindb/lindb/aggregation"
	"github.com/lindb/lindb/aggregation/function"
	"github.com/lindb/lindb/series/field"
)

func read(agg aggregation.FieldAggregator) map[field.AggType]map[int]float64 {
	out := map[field.AggType]map[int]float64{}
	_, it := agg.ResultSet()
	for it.HasNext() {
		p := it.Next()
		m := map[int]float64{}
		for p.HasNext() {
			s, v := p.Next()
			m[s] = v
		}
		out[p.AggType()] = m
	}
	return out
}

func main() {
	spec := aggregation.NewAggregatorSpec("load", field.SumField)
	spec.AddFunctionType(function.Sum)
	spec.AddFunctionType(function.Max)
	// one leaf: two series, values 1 and 10 in slot 3 (raw values go to every aggregate type)
	leaf := aggregation.NewFieldAggregator(spec, 0, 0, 9)
	leaf.AggregateBySlot(3, 1)
	leaf.AggregateBySlot(3, 10)
	l := read(leaf)
	fmt.Printf("leaf:           sum=%v max=%v\n", l[field.Sum][3], l[field.Max][3])
	// the root merges that leaf's answer
	root := aggregation.NewFieldAggregator(spec, 0, 0, 9)
	_, it := leaf.ResultSet()
	root.Aggregate(it)
	r := read(root)
	fmt.Printf("root (1 leaf):  sum=%v max=%v   (want sum=11 max=10)\n", r[field.Sum][3], r[field.Max][3])
	if r[field.Sum][3] != 11 || r[field.Max][3] != 10 {
		fmt.Println("FAIL: merging a partial result mixes the aggregate types of one field")
		os.Exit(1)
	}
	fmt.Println("PASS")
}
