package main

// F18 triage (C10): the persisted forward index of a tag key stores the tag value ids of all series contiguously, one run
// per roaring container of the series-id bitmap.  tagForwardReader locates the run of container i through a lookup table
// that must hold the number of series in the containers BEFORE i (a prefix sum).  NewTagForwardReader stores the
// cardinality of container i-1 alone, which is right for i = 0 and 1 only: from the third container on (series ids
// >= 131072 of one metric in one shard) group-by reads the tag values of other series.
import (
	"bytes"
	"fmt"
	"os"
	"path/filepath"

	protoMetricsV1 "github.com/lindb/common/proto/gen/v1/linmetrics"
	"github.com/lindb/roaring"

	"github.com/lindb/lindb/flow"
	"github.com/lindb/lindb/index"
	"github.com/lindb/lindb/models"
	"github.com/lindb/lindb/series/metric"
	"github.com/lindb/lindb/series/tag"
	"github.com/lindb/lindb/sql/stmt"
)

var conv = metric.NewProtoConverter(models.NewDefaultLimits())

func row(host string) *metric.StorageRow {
	m := &protoMetricsV1.Metric{Name: "cpu.load", Namespace: "ns",
		Tags:         []*protoMetricsV1.KeyValue{{Key: "host", Value: host}},
		SimpleFields: []*protoMetricsV1.SimpleField{{Name: "f1", Type: protoMetricsV1.SimpleFieldType_DELTA_SUM, Value: 10}}}
	var ml protoMetricsV1.MetricList
	ml.Metrics = append(ml.Metrics, m)
	var buf bytes.Buffer
	if _, err := conv.MarshalProtoMetricListV1To(ml, &buf); err != nil {
		panic(err)
	}
	var br metric.StorageBatchRows
	br.UnmarshalRows(buf.Bytes())
	return br.Rows()[0]
}

func must(err error) {
	if err != nil {
		panic(err)
	}
}

func main() {
	dir, _ := os.MkdirTemp("", "f18-")
	defer os.RemoveAll(dir)
	metaDB, err := index.NewMetricMetaDatabase("demo", filepath.Join(dir, "meta"))
	must(err)
	indexDB, err := index.NewMetricIndexDatabase(filepath.Join(dir, "index"), metaDB)
	must(err)
	metricID, err := metaDB.GenMetricID([]byte("ns"), []byte("cpu.load"))
	must(err)
	const n = 65536*2 + 3000 // three containers
	hostOf := map[uint32]string{}
	all := roaring.New()
	for i := 0; i < n; i++ {
		h := fmt.Sprintf("h%06d", i)
		id, err := indexDB.GenSeriesID(metricID, row(h))
		must(err)
		hostOf[id] = h
		all.Add(id)
	}
	fmt.Printf("%d series written, series ids %d..%d (%d containers)\n", n, all.Minimum(), all.Maximum(), len(all.GetHighKeys()))
	hostKey, err := metaDB.GenTagKeyID(metricID, []byte("host"))
	must(err)
	valueID := func(h string) uint32 {
		ids, err := metaDB.FindTagValueDsByExpr(hostKey, &stmt.EqualsExpr{Key: "host", Value: h})
		must(err)
		if ids.GetCardinality() != 1 {
			panic("tag value " + h)
		}
		return ids.Minimum()
	}
	check := func(when string) int {
		ctx := flow.NewShardExecuteContext(&flow.StorageExecuteContext{GroupByTagKeyIDs: []tag.KeyID{hostKey}})
		ctx.SeriesIDsAfterFiltering = all.Clone()
		must(indexDB.GetGroupingContext(ctx))
		bad := 0
		for i, hk := range all.GetHighKeys() {
			c := all.GetContainerAtIndex(i)
			got := ctx.GroupingContext.ScanTagValueIDs(hk, c)[0]
			want := roaring.New()
			it := c.PeekableIterator()
			for it.HasNext() {
				low := it.Next()
				want.Add(valueID(hostOf[uint32(hk)<<16|uint32(low)]))
			}
			ok := got.Equals(want)
			fmt.Printf("%s: container %d (%d series): group-by yields %d distinct host value ids, first %d, want first %d -> %v\n", when, hk, c.GetCardinality(), got.GetCardinality(), got.Minimum(), want.Minimum(), map[bool]string{true: "ok", false: "WRONG"}[ok])
			if !ok {
				bad++
			}
		}
		return bad
	}
	bad := check("in memory")
	indexDB.PrepareFlush()
	must(indexDB.Flush())
	bad += check("after flush")
	if bad > 0 {
		fmt.Println("FAIL: group-by returns the grouping-key values of other series")
		os.Exit(1)
	}
	fmt.Println("PASS: group-by returns for every selected series its own value of the grouping key")
}
