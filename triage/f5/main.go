package main

import (
	"errors"
	"fmt"
	"time"

	"github.com/lindb/common/models"

	"github.com/lindb/lindb/query"
	"github.com/lindb/lindb/query/stage"
	"github.com/lindb/lindb/query/tracker"
)

// fake stage: real pipeline + real state machine, only the stage body is a stub.
type fake struct {
	name  string
	next  []stage.Stage
	delay time.Duration
	err   error
	async bool
}

func (f *fake) Identifier() string             { return f.name }
func (f *fake) Stats() []*models.OperatorStats { return nil }
func (f *fake) Type() stage.Type               { return stage.ShardScan }
func (f *fake) Plan() stage.PlanNode           { return nil }
func (f *fake) NextStages() []stage.Stage      { return f.next }
func (f *fake) Complete()                      {}
func (f *fake) IsAsync() bool                  { return f.async }
func (f *fake) Execute(_ stage.PlanNode, completeHandle func(), errHandle func(err error)) {
	run := func() {
		time.Sleep(f.delay)
		if f.err != nil {
			errHandle(f.err)
		} else {
			completeHandle()
		}
	}
	if f.async {
		go run()
	} else {
		run()
	}
}

func main() {
	done := make(chan error, 4)
	p := query.NewExecutePipeline(tracker.NewStageTracker(nil), func(err error) { done <- err })
	failFast := &fake{name: "shard-1 (fails first)", err: errors.New("shard 1 failed"), delay: 10 * time.Millisecond, async: true}
	okSlow := &fake{name: "shard-2 (succeeds last)", delay: 80 * time.Millisecond, async: true}
	root := &fake{name: "root", next: []stage.Stage{failFast, okSlow}}
	p.Execute(root)
	select {
	case err := <-done:
		fmt.Printf("pipeline completion callback received err=%v  (a stage failed: property wants non-nil)\n", err)
	case <-time.After(2 * time.Second):
		fmt.Println("no completion")
	}
}
