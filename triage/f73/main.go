// F73 triage (C16): a line-protocol row without tags and with two or more fields is stored under a wrong metric name
// (the measurement is cut at the first comma of the LINE, which belongs to the fields).  Exported API only.
// exit 1 = the stored name / tags / fields differ from what was sent.
package main

import (
	"bytes"
	"context"
	"fmt"
	"net/http"
	"os"

	"github.com/lindb/common/proto/gen/v1/flatMetricsV1"

	"github.com/lindb/lindb/ingestion/influx"
	"github.com/lindb/lindb/models"
)

func main() {
	bad := 0
	for _, c := range []struct {
		line         string
		name         string
		tags, fields int
	}{
		{"cpu,host=a value=1,load=2 1465839830100400200", "cpu", 1, 2}, // with tags: fine before and after
		{"cpu value=1 1465839830100400200", "cpu", 0, 1},               // no tags, one field: fine
		{"cpu value=1,load=2 1465839830100400200", "cpu", 0, 2},        // no tags, two fields
	} {
		req, _ := http.NewRequestWithContext(context.TODO(), http.MethodPut, "/write?precision=ns", bytes.NewReader([]byte(c.line)))
		batch, err := influx.Parse(req, nil, "ns", models.NewDefaultLimits())
		if err != nil || batch.Len() != 1 {
			n := 0
			if batch != nil {
				n = batch.Len()
			}
			fmt.Printf("%q: rows=%d err=%v (dropped)\n", c.line, n, err)
			bad++
			continue
		}
		rows := batch.Rows()
		m := rows[0].Metric()
		var sf flatMetricsV1.SimpleField
		fields := m.SimpleFieldsLength()
		_ = sf
		fmt.Printf("%q: stored name %q, %d tags, %d flat fields (two per line-protocol field)\n", c.line, m.Name(), m.KeyValuesLength(), fields)
		if string(m.Name()) != c.name || m.KeyValuesLength() != c.tags || fields != 2*c.fields {
			bad++
		}
	}
	if bad > 0 {
		fmt.Println("FAIL")
		os.Exit(1)
	}
	fmt.Println("PASS")
}
