#!/usr/bin/env bash
# one-off triage harness for F73 (not a registered check). exit 0 = tag-less multi-field lines keep their name, 1 = they do not
set -u
export GOFLAGS=-mod=mod GOPROXY=off GOSUMDB=off GOTOOLCHAIN=local
ROOT="${1:-/repo}"; HERE="$(cd "$(dirname "$0")" && pwd)"
DEMO_DIR="$ROOT/zz_triage_f73"
trap 'rm -rf "$DEMO_DIR"' EXIT
mkdir -p "$DEMO_DIR"; cp "$HERE/main.go" "$DEMO_DIR/"
cd "$ROOT" && go run ./zz_triage_f73/ 2>&1 | grep -v "INFO\|WARN" | tail -8
exit "${PIPESTATUS[0]}"
