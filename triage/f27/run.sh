#!/bin/sh
# one-off triage harness for F27 (not a registered check); the engine harness (harness.go) and the scenario were written by a
# seeding sub-agent for its C11 demonstrations. Runs from inside <root> (imports internal packages).
export GOFLAGS=-mod=mod GOPROXY=off GOSUMDB=off GOTOOLCHAIN=local TZ=UTC
HERE="$(cd "$(dirname "$0")" && pwd)"; ROOT="${1:-/repo}"
cleanup() { rm -rf "$ROOT/zz_triage_f27"; }
trap cleanup EXIT
mkdir -p "$ROOT/zz_triage_f27" && cp "$HERE"/main.go "$HERE"/harness.go "$ROOT/zz_triage_f27/"
cd "$ROOT" && timeout 300 go run ./zz_triage_f27 2>&1 | grep -v '^20[0-9][0-9]-[0-9][0-9]-[0-9][0-9] ' | tail -12
