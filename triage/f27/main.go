package main

// Observation demo (PRISTINE tree): a series which is idle for > 3h while other series of the same
// metric stay active loses every point written after it resumes.
// The 3 hours are simulated by calling the exported TimeSeriesIndex.GC with the timestamp which
// indexDatabase.Cleanup would pass 3 hours later (now-3h > expire timestamp  <=>  gcTimestamp > expire timestamp).

import (
	"bytes"
	"fmt"
	"os"
	"time"

	protoMetricsV1 "github.com/lindb/common/proto/gen/v1/linmetrics"

	"github.com/lindb/lindb/models"
	"github.com/lindb/lindb/series/field"
	"github.com/lindb/lindb/series/metric"
)

func nameHash(name string) uint64 {
	ml := protoMetricsV1.MetricList{Metrics: []*protoMetricsV1.Metric{{Name: name, Timestamp: time.Now().UnixMilli(),
		SimpleFields: []*protoMetricsV1.SimpleField{sumField("cnt", 1)},
		Tags:         []*protoMetricsV1.KeyValue{{Key: "host", Value: "x"}}}}}
	var buf bytes.Buffer
	converter := metric.NewProtoConverter(models.NewDefaultLimits())
	if _, err := converter.MarshalProtoMetricListV1To(ml, &buf); err != nil {
		fatal("marshal: %v", err)
	}
	var br metric.StorageBatchRows
	br.UnmarshalRows(buf.Bytes())
	return br.Rows()[0].NameHash()
}

func main() {
	h := newHarness()
	base := baseTime()
	w := func(host string, slot int, v float64) {
		h.write(point{name: "req", tags: map[string]string{"host": host}, ts: base + int64(slot)*10000,
			fields: []*protoMetricsV1.SimpleField{sumField("cnt", v)}})
	}
	q := func(host string) map[int]float64 {
		rs, errMsg := h.query(fmt.Sprintf("select cnt from req where host='%s'", host), base, base+100*10000)
		if errMsg != "" {
			fmt.Println("query error:", errMsg)
		}
		return rs[""]["cnt"][field.Sum]
	}
	w("a", 1, 1)
	w("b", 1, 10)
	w("c", 1, 100)
	h.flush(base) // memdb closed -> Cleanup: a,b,c marked expired(now)
	w("b", 2, 20) // b, c keep writing -> un-expired
	w("c", 2, 200)
	// ... 3 hours later the next memory database flush of the shard runs Cleanup -> GC(now-3h)
	idx, ok := h.shard.MemIndexDB().GetTimeSeriesIndex(nameHash("req"))
	if !ok {
		fatal("time series index not found")
	}
	idx.GC(time.Now().UnixMilli() + 1000) // == a's expire timestamp is older than gc timestamp
	// series a resumes
	w("a", 3, 3)
	w("a", 4, 4)
	fmt.Println("a (memory):", q("a"), " expected map[1:1 3:3 4:4]")
	fmt.Println("b (memory):", q("b"))
	h.flush(base)
	got := q("a")
	fmt.Println("a (flushed):", got, " expected map[1:1 3:3 4:4]")
	h.close()
	if len(got) != 3 {
		fmt.Println("FAIL: points of series a written after the idle period are lost (also after flush)")
		os.Exit(1)
	}
	fmt.Println("PASS")
}
