package main

// Small end-to-end harness: a real tsdb engine (memory database, kv store, flush, compaction)
// driven through exported APIs, queried through the real leaf task processor. The observed
// value is the TimeSeriesList the leaf sends to its receiver.

import (
	"bytes"
	"context"
	"encoding/json"
	"fmt"
	"os"
	"sort"
	"strings"
	"time"

	protoMetricsV1 "github.com/lindb/common/proto/gen/v1/linmetrics"
	"google.golang.org/grpc/metadata"

	"github.com/lindb/lindb/config"
	"github.com/lindb/lindb/flow"
	"github.com/lindb/lindb/models"
	"github.com/lindb/lindb/pkg/option"
	"github.com/lindb/lindb/pkg/timeutil"
	protoCommonV1 "github.com/lindb/lindb/proto/gen/v1/common"
	"github.com/lindb/lindb/query"
	"github.com/lindb/lindb/rpc"
	"github.com/lindb/lindb/series"
	"github.com/lindb/lindb/series/field"
	"github.com/lindb/lindb/series/metric"
	"github.com/lindb/lindb/sql"
	"github.com/lindb/lindb/sql/stmt"
	"github.com/lindb/lindb/tsdb"
)

const (
	dbName   = "demo-db"
	shardID  = models.ShardID(1)
	interval = timeutil.Interval(10 * 1000) // 10s storage interval
	receiver = "127.0.0.1:9999"
)

type harness struct {
	dir     string
	engine  tsdb.Engine
	db      tsdb.Database
	shard   tsdb.Shard
	factory rpc.TaskServerFactory
	stream  *captureStream
	leaf    query.TaskProcessor
	node    *models.StatelessNode
	reqSeq  int
	ratio   int // query interval = ratio * storage interval (0/1 = storage interval)
}

// captureStream is the receiver end of the leaf task: it records the responses.
type captureStream struct {
	ch chan *protoCommonV1.TaskResponse
}

func (s *captureStream) Send(resp *protoCommonV1.TaskResponse) error {
	s.ch <- resp
	return nil
}
func (s *captureStream) Recv() (*protoCommonV1.TaskRequest, error) { return nil, fmt.Errorf("n/a") }
func (s *captureStream) SetHeader(metadata.MD) error               { return nil }
func (s *captureStream) SendHeader(metadata.MD) error              { return nil }
func (s *captureStream) SetTrailer(metadata.MD)                    {}
func (s *captureStream) Context() context.Context                  { return context.Background() }
func (s *captureStream) SendMsg(interface{}) error                 { return nil }
func (s *captureStream) RecvMsg(interface{}) error                 { return nil }

func newHarness() *harness {
	dir, err := os.MkdirTemp("", "lindb-demo-")
	must(err)
	cfg := config.NewDefaultStorageBase()
	cfg.TSDB.Dir = dir
	config.SetGlobalStorageConfig(cfg)

	engine, err := tsdb.NewEngine()
	must(err)
	opt := &option.DatabaseOption{
		Intervals:    option.Intervals{{Interval: interval, Retention: timeutil.Interval(30 * 24 * 3600 * 1000)}},
		AutoCreateNS: true,
	}
	must(engine.CreateShards(dbName, opt, shardID))
	db, ok := engine.GetDatabase(dbName)
	if !ok {
		fatal("database not found")
	}
	shard, ok := db.GetShard(shardID)
	if !ok {
		fatal("shard not found")
	}
	h := &harness{dir: dir, engine: engine, db: db, shard: shard}
	h.node = &models.StatelessNode{HostIP: "127.0.0.1", GRPCPort: 2891}
	h.factory = rpc.NewTaskServerFactory()
	h.stream = &captureStream{ch: make(chan *protoCommonV1.TaskResponse, 16)}
	h.factory.Register(receiver, h.stream)
	h.leaf = query.NewLeafTaskProcessor(h.node, engine, h.factory)
	return h
}

func (h *harness) close() {
	h.engine.Close()
	_ = os.RemoveAll(h.dir)
}

func (h *harness) family(ts int64) tsdb.DataFamily {
	familyTime := interval.Calculator().CalcFamilyTime(ts)
	f, err := h.shard.GetOrCrateDataFamily(familyTime)
	must(err)
	return f
}

type point struct {
	name   string
	tags   map[string]string
	ts     int64
	fields []*protoMetricsV1.SimpleField
}

func sumField(name string, v float64) *protoMetricsV1.SimpleField {
	return &protoMetricsV1.SimpleField{Name: name, Value: v, Type: protoMetricsV1.SimpleFieldType_DELTA_SUM}
}
func maxField(name string, v float64) *protoMetricsV1.SimpleField {
	return &protoMetricsV1.SimpleField{Name: name, Value: v, Type: protoMetricsV1.SimpleFieldType_Max}
}
func minField(name string, v float64) *protoMetricsV1.SimpleField {
	return &protoMetricsV1.SimpleField{Name: name, Value: v, Type: protoMetricsV1.SimpleFieldType_Min}
}

// write writes one point through the family's batch write path (waits for meta/index build).
func (h *harness) write(p point) {
	h.writeBatch([]point{p})
}

// writeBatch writes points (all of one family) in one batch.
func (h *harness) writeBatch(ps []point) {
	ml := protoMetricsV1.MetricList{}
	for _, p := range ps {
		m := &protoMetricsV1.Metric{Name: p.name, Timestamp: p.ts, SimpleFields: p.fields}
		var keys []string
		for k := range p.tags {
			keys = append(keys, k)
		}
		sort.Strings(keys)
		for _, k := range keys {
			m.Tags = append(m.Tags, &protoMetricsV1.KeyValue{Key: k, Value: p.tags[k]})
		}
		ml.Metrics = append(ml.Metrics, m)
	}
	var buf bytes.Buffer
	converter := metric.NewProtoConverter(models.NewDefaultLimits())
	if _, err := converter.MarshalProtoMetricListV1To(ml, &buf); err != nil {
		fatal("marshal rows: %v", err)
	}
	var br metric.StorageBatchRows
	br.UnmarshalRows(buf.Bytes())
	must(h.family(ps[0].ts).WriteRows(br.Rows()))
}

func (h *harness) flush(ts int64) {
	must(h.family(ts).Flush())
}

// result: tags -> field -> aggType -> slot(relative to query start, in query intervals) -> value
type result map[string]map[string]map[field.AggType]map[int]float64

// query runs "sqlText" over [start,end] through the leaf task processor and decodes the
// TimeSeriesList which the leaf sends to the receiver.
func (h *harness) query(sqlText string, start, end int64) (result, string) {
	st, err := sql.Parse(sqlText)
	must(err)
	q := st.(*stmt.Query)
	q.TimeRange = timeutil.TimeRange{Start: start, End: end}
	ratio := h.ratio
	if ratio <= 0 {
		ratio = 1
	}
	q.Interval = timeutil.Interval(interval.Int64() * int64(ratio))
	q.StorageInterval = interval
	q.IntervalRatio = ratio
	q.Explain = os.Getenv("DEMO_DEBUG") != ""
	payload, err := q.MarshalJSON()
	must(err)
	plan := models.PhysicalPlan{
		Database:  dbName,
		Targets:   []*models.Target{{Indicator: h.node.Indicator(), ShardIDs: []models.ShardID{shardID}}},
		Receivers: []string{receiver},
	}
	planData, err := json.Marshal(&plan)
	must(err)
	h.reqSeq++
	req := &protoCommonV1.TaskRequest{
		RequestID:    fmt.Sprintf("demo-%d", h.reqSeq),
		RequestType:  protoCommonV1.RequestType_Data,
		PhysicalPlan: planData,
		Payload:      payload,
	}
	taskCtx := flow.NewTaskContextWithTimeout(context.Background(), 20*time.Second)
	must(h.leaf.Process(taskCtx, h.stream, req))

	var resp *protoCommonV1.TaskResponse
	select {
	case resp = <-h.stream.ch:
	case <-time.After(25 * time.Second):
		fatal("no response from leaf for %q", sqlText)
	}
	if os.Getenv("DEMO_DEBUG") != "" {
		fmt.Printf("DEBUG resp err=%q payload=%d stats=%s\n", resp.ErrMsg, len(resp.Payload), string(resp.Stats))
	}
	if resp.ErrMsg != "" {
		return result{}, resp.ErrMsg
	}
	tsList := &protoCommonV1.TimeSeriesList{}
	must(tsList.Unmarshal(resp.Payload))
	rs := result{}
	for _, ts := range tsList.TimeSeriesList {
		fields := make(map[field.Name][]byte)
		for k, v := range ts.Fields {
			fields[field.Name(k)] = v
		}
		byField := rs[ts.Tags]
		if byField == nil {
			byField = map[string]map[field.AggType]map[int]float64{}
			rs[ts.Tags] = byField
		}
		git := series.NewGroupedIterator(ts.Tags, fields)
		for git.HasNext() {
			sit := git.Next()
			byAgg := map[field.AggType]map[int]float64{}
			byField[string(sit.FieldName())] = byAgg
			for sit.HasNext() {
				_, fit := sit.Next()
				if fit == nil {
					continue
				}
				for fit.HasNext() {
					pit := fit.Next()
					vals := byAgg[pit.AggType()]
					if vals == nil {
						vals = map[int]float64{}
						byAgg[pit.AggType()] = vals
					}
					for pit.HasNext() {
						slot, v := pit.Next()
						vals[slot] = v
					}
				}
			}
		}
	}
	return rs, ""
}

func (r result) String() string {
	var lines []string
	for tags, byField := range r {
		for f, byAgg := range byField {
			for agg, vals := range byAgg {
				var slots []int
				for s := range vals {
					slots = append(slots, s)
				}
				sort.Ints(slots)
				var sb strings.Builder
				for _, s := range slots {
					fmt.Fprintf(&sb, " %d:%v", s, vals[s])
				}
				lines = append(lines, fmt.Sprintf("  tags=%q field=%s agg=%d ->%s", tags, f, agg, sb.String()))
			}
		}
	}
	sort.Strings(lines)
	return strings.Join(lines, "\n")
}

func must(err error) {
	if err != nil {
		fatal("unexpected error: %v", err)
	}
}

func fatal(format string, args ...interface{}) {
	fmt.Printf("HARNESS ERROR: "+format+"\n", args...)
	os.Exit(2)
}

// baseTime returns the start of the previous hour family (recent, so the segment is not expired).
func baseTime() int64 {
	now := time.Now().UnixMilli()
	return interval.Calculator().CalcFamilyTime(now) - 3600*1000
}
