package main

// F14 triage (C11): AggType.Aggregate(a, b) takes the value already stored (earlier) first and the incoming (later) one
// second: Last keeps b, First keeps a.  field_writer.merge calls Aggregate(newValue, oldValue) with the write buffer's
// (later) value first and the compressed (earlier) value second, so a Last field keeps the OLD value and a First field
// the NEW one when a slot is present in both (the same slot written again after the write window moved).
import (
	"fmt"
	"os"

	protoMetricsV1 "github.com/lindb/common/proto/gen/v1/linmetrics"

	"github.com/lindb/lindb/series/field"
)

func main() {
	h := newHarness()
	base := baseTime()
	at := func(slot int) int64 { return base + int64(slot)*10000 }
	w := func(slot int, last, first float64) {
		h.write(point{name: "gauge", tags: map[string]string{"host": "a"}, ts: at(slot), fields: []*protoMetricsV1.SimpleField{
			{Name: "l", Value: last, Type: protoMetricsV1.SimpleFieldType_LAST},
			{Name: "f", Value: first, Type: protoMetricsV1.SimpleFieldType_FIRST},
		}})
	}
	w(10, 1, 1)   // window starts at slot 10
	w(200, 2, 2)  // far away: the window is compacted (slot 10 goes to the compressed buffer), new window at 200
	w(10, 3, 3)   // slot 10 again: compacted again, new window at 10 holding the LATER value
	failed := false
	check := func(phase string) {
		for _, f := range []struct {
			name string
			agg  field.AggType
			want float64
		}{{"l", field.Last, 3}, {"f", field.First, 1}} {
			rs, errMsg := h.query("select "+f.name+" from gauge where host='a'", base, base+300*10000)
			got, ok := rs[""][f.name][f.agg][10]
			if !ok || got != f.want || errMsg != "" {
				failed = true
				fmt.Printf("MISMATCH [%s] field %s slot 10 = %v (present=%v) want %v err=%q\n", phase, f.name, got, ok, f.want, errMsg)
			} else {
				fmt.Printf("ok       [%s] field %s slot 10 = %v\n", phase, f.name, got)
			}
		}
	}
	check("memory")
	h.flush(base)
	check("flushed")
	h.close()
	if failed {
		fmt.Println("FAIL: last/first value of a slot written twice depends on whether the data was compacted")
		os.Exit(1)
	}
	fmt.Println("PASS")
}
