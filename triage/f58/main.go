// F58 triage (C13): program written by a seeding sub-agent (C13 observation O4, round 8).
// Observation O4 repro (unchanged tree): the database option accepts a negative and a zero interval.
package main

import (
	"fmt"
	"os"

	"github.com/lindb/common/pkg/encoding"

	"github.com/lindb/lindb/models"
	"github.com/lindb/lindb/pkg/timeutil"
	"github.com/lindb/lindb/pkg/validate"
)

func main() {
	bad := 0
	for _, ivStr := range []string{"-10s", "0s"} {
		js := fmt.Sprintf(`{"name":"d","storage":"s","numOfShard":1,"replicaFactor":1,"option":{"intervals":[{"interval":%q,"retention":"30d"}]}}`, ivStr)
		database := &models.Database{}
		if err := encoding.JSONUnmarshal([]byte(js), database); err != nil {
			fmt.Println("rejected by unmarshal:", ivStr, err)
			continue
		}
		// the two checks of app/broker/api/exec/command/schema.go saveDataBase
		if err := validate.Validator.Struct(database); err != nil {
			fmt.Println("rejected by struct validation:", ivStr, err)
			continue
		}
		if err := database.Option.Validate(); err != nil {
			fmt.Println("rejected by option validation:", ivStr, err)
			continue
		}
		iv := database.Option.Intervals[0].Interval
		fmt.Printf("ACCEPTED interval %q => %d ms, type %s\n", ivStr, iv.Int64(), iv.Type())
		bad++
		func() {
			defer func() {
				if r := recover(); r != nil {
					fmt.Println("  CalcSlot panics:", r)
				}
			}()
			calc := iv.Calculator()
			ts := int64(1790256600000) // 2026-09-24 13:30:00 UTC
			ft := calc.CalcFamilyTime(ts)
			slot := calc.CalcSlot(ts, ft, iv.Int64())
			fmt.Printf("  slot=%d (uint16 in memdb: %d), slot time - timestamp = %d ms\n",
				slot, uint16(slot), timeutil.CalcTimestamp(ft, slot, iv)-ts)
		}()
	}
	if bad > 0 {
		os.Exit(1)
	}
}
