#!/bin/bash
# one-off triage harness for F58 (not a registered check). non-zero exit: the database option accepted a non-positive interval
set -u
ROOT=$(cd "${1:-/repo}" && pwd); HERE=$(cd "$(dirname "$0")" && pwd)
export GOFLAGS=-mod=mod GOPROXY=off GOSUMDB=off GOTOOLCHAIN=local TZ=UTC
trap 'rm -rf "$ROOT/zz_triage_f58"' EXIT
mkdir -p "$ROOT/zz_triage_f58"; cp "$HERE/main.go" "$ROOT/zz_triage_f58/main.go"
cd "$ROOT" && go run ./zz_triage_f58
