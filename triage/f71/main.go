// F71 triage (C16): a flat row without a namespace, sent to a request that names one, is stored under "default-ns";
// the fallback to the request's namespace in BrokerRowFlatDecoder.rebuild is dead code.  Exported API only.
// exit 1 = the request namespace was not applied.
package main

import (
	"bytes"
	"fmt"
	"os"

	"github.com/lindb/common/proto/gen/v1/flatMetricsV1"
	commonseries "github.com/lindb/common/series"

	"github.com/lindb/lindb/ingestion/flat"
	"github.com/lindb/lindb/models"
)

func main() {
	build := func(ns string) []byte {
		rb := commonseries.CreateRowBuilder()
		rb.AddMetricName([]byte("cpu"))
		if ns != "" {
			rb.AddNameSpace([]byte(ns))
		}
		_ = rb.AddSimpleField([]byte("f"), flatMetricsV1.SimpleFieldTypeLast, 1)
		_ = rb.AddTag([]byte("host"), []byte("a"))
		data, err := rb.Build()
		if err != nil {
			panic(err)
		}
		return append([]byte{}, data...)
	}
	bad := 0
	for _, c := range []struct{ rowNS, reqNS, want string }{
		{"", "prod", "prod"},   // the row names none: the request's namespace
		{"own", "prod", "own"}, // the row's own namespace is kept
		{"", "", "default-ns"}, // nobody names one
	} {
		batch, err := flat.ParseReader(bytes.NewReader(build(c.rowNS)), nil, c.reqNS, models.NewDefaultLimits())
		if err != nil || batch.Len() != 1 {
			fmt.Println("parse failed:", err)
			os.Exit(2)
		}
		rows := batch.Rows()
		m := rows[0].Metric()
		got := string(m.Namespace())
		if got == "" {
			got = "default-ns"
		}
		fmt.Printf("row namespace %q, request namespace %q -> stored under %q (want %q)\n", c.rowNS, c.reqNS, got, c.want)
		if got != c.want {
			bad++
		}
	}
	if bad > 0 {
		fmt.Println("FAIL: the request's namespace is not applied to a flat row that names none")
		os.Exit(1)
	}
	fmt.Println("PASS")
}
