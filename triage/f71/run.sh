#!/usr/bin/env bash
# one-off triage harness for F71 (not a registered check). exit 0 = the request namespace is applied, 1 = it is not
set -u
export GOFLAGS=-mod=mod GOPROXY=off GOSUMDB=off GOTOOLCHAIN=local
ROOT="${1:-/repo}"; HERE="$(cd "$(dirname "$0")" && pwd)"
DEMO_DIR="$ROOT/zz_triage_f71"
trap 'rm -rf "$DEMO_DIR"' EXIT
mkdir -p "$DEMO_DIR"; cp "$HERE/main.go" "$DEMO_DIR/"
cd "$ROOT" && go run ./zz_triage_f71/ 2>&1 | grep -v "INFO\|WARN" | tail -8
exit "${PIPESTATUS[0]}"
