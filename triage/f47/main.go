package main

// F47 triage (C19): pipelineStateMachine.executeStage counts a stage as pending (pending.Inc()) and THEN calls
// stage.Identifier() to fill the stage statistics - before pipeline.executeStage has installed the recover that gives a
// panicking stage's count back (F21).  Identifier() of the real stages dereferences their shard / segment (nil for a
// time segment that has no result set).  For a stage started from the completion handler of an ASYNC parent the panic unwinds
// into the worker pool, whose handler completes the PARENT with the error; the child stays counted, pending never reaches
// zero and the pipeline never signals completion.
//
// The stage body is a stub; pipeline, state machine and worker pool are the real ones, and the stub's Execute is
// baseStage.Execute verbatim (pool.Submit(ctx, NewTask(execFn, errHandle))).
import (
	"context"
	"fmt"
	"os"
	"time"

	"github.com/lindb/common/models"

	"github.com/lindb/lindb/internal/concurrent"
	"github.com/lindb/lindb/internal/linmetric"
	"github.com/lindb/lindb/metrics"
	"github.com/lindb/lindb/query"
	"github.com/lindb/lindb/query/stage"
	"github.com/lindb/lindb/query/tracker"
)

var pool = concurrent.NewPool("f47", 4, time.Second, metrics.NewConcurrentStatistics("f47", linmetric.StorageRegistry))

type fake struct {
	name      string
	next      []stage.Stage
	async     bool
	planPanic bool
}

func (f *fake) Identifier() string {
	if f.planPanic {
		var seg *struct{ name string }
		return seg.name // nil dereference while describing the stage
	}
	return f.name
}
func (f *fake) Stats() []*models.OperatorStats { return nil }
func (f *fake) Type() stage.Type               { return stage.ShardScan }
func (f *fake) NextStages() []stage.Stage      { return f.next }
func (f *fake) Complete()                      {}
func (f *fake) IsAsync() bool                  { return f.async }
func (f *fake) Plan() stage.PlanNode { return nil }
func (f *fake) Execute(_ stage.PlanNode, completeHandle func(), errHandle func(err error)) {
	execFn := func() { completeHandle() }
	if f.async {
		pool.Submit(context.Background(), concurrent.NewTask(func() { execFn() }, errHandle))
	} else {
		execFn()
	}
}

func run(what string, root *fake) bool {
	done := make(chan error, 4)
	p := query.NewExecutePipeline(tracker.NewStageTracker(nil), func(err error) { done <- err })
	p.Execute(root)
	select {
	case err := <-done:
		fmt.Printf("%-48s -> completed, err=%v\n", what, err)
		if err == nil {
			fmt.Println("   FAIL: a stage panicked but the pipeline reports success")
			return false
		}
		select {
		case err2 := <-done:
			fmt.Printf("   FAIL: completed twice (second err=%v)\n", err2)
			return false
		case <-time.After(200 * time.Millisecond):
		}
		return true
	case <-time.After(2 * time.Second):
		fmt.Printf("%-48s -> NO completion after 2s\n", what)
		fmt.Println("   FAIL: the pipeline never completes: the request gets no response")
		return false
	}
}

func main() {
	ok := true
	ok = run("root's Identifier panics", &fake{name: "root", planPanic: true}) && ok
	ok = run("child of a SYNC parent: Identifier panics", &fake{name: "root", next: []stage.Stage{&fake{name: "child", planPanic: true}}}) && ok
	ok = run("child of an ASYNC parent: Identifier panics", &fake{name: "root", async: true, next: []stage.Stage{&fake{name: "child", planPanic: true}}}) && ok
	ok = run("grandchild under async parents: Identifier panics", &fake{name: "root", async: true, next: []stage.Stage{
		&fake{name: "ok-sibling", async: true},
		&fake{name: "child", async: true, next: []stage.Stage{&fake{name: "grandchild", planPanic: true}}}}}) && ok
	if !ok {
		os.Exit(1)
	}
	fmt.Println("PASS: every pipeline completed exactly once, with an error")
}
