#!/bin/sh
# one-off triage harness for F21 (not a registered check): uses internal/concurrent, so it runs from inside <root>
export GOFLAGS=-mod=mod GOPROXY=off GOSUMDB=off GOTOOLCHAIN=local
HERE="$(cd "$(dirname "$0")" && pwd)"; ROOT="${1:-/repo}"
cleanup() { rm -rf "$ROOT/zz_triage_f47"; }
trap cleanup EXIT
mkdir -p "$ROOT/zz_triage_f47" && cp "$HERE"/main.go "$ROOT/zz_triage_f47/"
cd "$ROOT" && timeout 120 go run ./zz_triage_f47 2>&1 | grep -v "INFO\|WARN\|^$\|ERROR\|^\s*\(github\|runtime\|main\|created\|goroutine\|panic\|/\)" 
