package main

import (
	"bytes"
	"fmt"
	"time"

	protoMetricsV1 "github.com/lindb/common/proto/gen/v1/linmetrics"

	"github.com/lindb/lindb/models"
	"github.com/lindb/lindb/series/metric"
)

func build(ts int64, n int) *metric.BrokerBatchRows {
	conv := metric.NewProtoConverter(models.NewDefaultLimits())
	batch := metric.NewBrokerBatchRows()
	for i := 0; i < n; i++ {
		m := &protoMetricsV1.Metric{
			Name:      fmt.Sprintf("m%d", i),
			Timestamp: ts,
			Tags:      []*protoMetricsV1.KeyValue{{Key: "k", Value: "v"}},
			SimpleFields: []*protoMetricsV1.SimpleField{{Name: "f", Type: protoMetricsV1.SimpleFieldType_DELTA_SUM, Value: 1}},
		}
		if err := batch.TryAppend(func(row *metric.BrokerRow) error { return conv.ConvertTo(m, row) }); err != nil {
			panic(err)
		}
	}
	return batch
}

func main() {
	now := time.Now().UnixMilli()
	// batch 1: all rows far in the past -> evicted
	b1 := build(now-10*24*3600*1000, 3)
	ev := b1.EvictOutOfTimeRange(3600*1000, 3600*1000)
	fmt.Println("batch1 evicted", ev)
	b1.Release()
	// batch 2: valid rows, reuses pooled batch
	b2 := build(now, 3)
	ev2 := b2.EvictOutOfTimeRange(3600*1000, 3600*1000)
	fmt.Println("batch2 evicted (reported)", ev2)
	dropped := 0
	for _, r := range b2.Rows() {
		var buf bytes.Buffer
		n, _ := r.WriteTo(&buf)
		if n == 0 {
			dropped++
		}
	}
	fmt.Println("batch2 rows silently dropped:", dropped, "of", b2.Len())
}
