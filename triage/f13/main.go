package main

// F13 triage (C11): the in-memory field buffer keeps [start, start+end] as the range of written slots. write() stores
// the delta of EVERY new slot into the end marker, also when it is smaller than the current end: after writing slots
// 10, 15, 12 the marker says 12 and slot 15 is outside the range every reader (query, flush, compaction) uses.
import (
	"fmt"
	"os"

	protoMetricsV1 "github.com/lindb/common/proto/gen/v1/linmetrics"

	"github.com/lindb/lindb/series/field"
)

func main() {
	h := newHarness()
	base := baseTime()
	at := func(slot int) int64 { return base + int64(slot)*10000 }
	for _, s := range []struct {
		slot int
		v    float64
	}{{10, 1}, {15, 2}, {12, 4}} {
		h.write(point{name: "cpu", tags: map[string]string{"host": "a"}, ts: at(s.slot), fields: []*protoMetricsV1.SimpleField{sumField("f1", s.v)}})
	}
	want := map[int]float64{10: 1, 12: 4, 15: 2}
	failed := false
	check := func(phase string) {
		rs, errMsg := h.query("select f1 from cpu where host='a'", base, base+20*10000)
		got := rs[""]["f1"][field.Sum]
		for slot, v := range want {
			if g, ok := got[slot]; !ok || g != v || errMsg != "" {
				failed = true
				fmt.Printf("MISMATCH [%s] slot %d = %v (present=%v) want %v err=%q\n", phase, slot, g, ok, v, errMsg)
			} else {
				fmt.Printf("ok       [%s] slot %d = %v\n", phase, slot, g)
			}
		}
	}
	check("memory")
	h.flush(base)
	check("flushed")
	h.close()
	if failed {
		fmt.Println("FAIL: a point written inside the write window is lost after a later write of an earlier slot")
		os.Exit(1)
	}
	fmt.Println("PASS")
}
