package main

// F33 triage (C17): statements the SQL parser ACCEPTS but whose expression tree contains a nil child (a duration literal or
// `*` where a field expression is expected): the tree marshals a `null` child and the leaf's UnmarshalJSON fails.
import (
	"fmt"
	"os"

	"github.com/lindb/lindb/sql"
	"github.com/lindb/lindb/sql/stmt"
)

func main() {
	bad := 0
	for _, q := range []string{
		"select f+1 from m",
		"select (f) from m",
		"select (1m) from m",
		"select f+1m from m",
		"select f+* from m",
		"select sum(f)+1m from m where host='a' group by host",
	} {
		st, err := sql.Parse(q)
		if err != nil {
			fmt.Printf("%-55s parser rejects: %v\n", q, err)
			continue
		}
		query, ok := st.(*stmt.Query)
		if !ok {
			fmt.Printf("%-55s not a query\n", q)
			continue
		}
		data, err := query.MarshalJSON()
		if err != nil {
			fmt.Printf("%-55s ACCEPTED, marshal error: %v\n", q, err)
			bad++
			continue
		}
		var back stmt.Query
		if err := back.UnmarshalJSON(data); err != nil {
			fmt.Printf("%-55s ACCEPTED, but the wire form can not be read back: %v\n", q, err)
			bad++
			continue
		}
		d2, _ := back.MarshalJSON()
		same := string(d2) == string(data)
		fmt.Printf("%-55s round-trips: %v\n", q, same)
		if !same {
			bad++
		}
	}
	if bad > 0 {
		fmt.Println("FAIL")
		os.Exit(1)
	}
	fmt.Println("PASS")
}
