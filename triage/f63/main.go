// F63 triage (C20): the dictionary {"\xff"} answers a look-up of the EMPTY key with the value of "\xff".
// Exported API only (trie builder, SuccinctTrie.Get, Write/UnmarshalBinary, model.TrieBucket).
// exit 1 = an absent key is reported present.
package main

import (
	"bytes"
	"fmt"
	"os"

	"github.com/lindb/lindb/pkg/trie"
)

func main() {
	bad := 0
	for _, keys := range [][][]byte{
		{{0xff}},
		{{0xff}, {0xff, 0xff}},
		{{'a'}, {0xff}},
		{{0xff, 'a'}},
	} {
		vals := make([]uint32, len(keys))
		for i := range vals {
			vals[i] = uint32(50 + i)
		}
		b := trie.NewBuilder()
		b.Build(keys, vals)
		t := b.Trie()
		var buf bytes.Buffer
		if err := b.Write(&buf); err != nil {
			panic(err)
		}
		t2 := trie.NewTrie()
		if err := t2.UnmarshalBinary(buf.Bytes()); err != nil {
			panic(err)
		}
		for name, tr := range map[string]trie.SuccinctTrie{"built": t, "reloaded": t2} {
			// every present key must be found with its value
			for i, k := range keys {
				if v, ok := tr.Get(k); !ok || v != vals[i] {
					fmt.Printf("%s %q: Get(%q) = %d,%v want %d,true\n", name, keys, k, v, ok, vals[i])
					bad++
				}
			}
			if v, ok := tr.Get([]byte{}); ok {
				fmt.Printf("%s %q: Get(\"\") = %d, PRESENT - the empty key is not in the dictionary\n", name, keys, v)
				bad++
			}
		}
	}
	if bad > 0 {
		fmt.Println("FAIL")
		os.Exit(1)
	}
	fmt.Println("PASS")
}
