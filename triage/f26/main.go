package main

// F26 triage (C01 / C15): storeFlusher.Commit decides between closing and abandoning its table builder with
// builder.Size() > 0 — the number of VALUE BYTES.  A flush whose values are all empty (legal: the table layer reads such
// a table back fine, and the compaction path tests Count()) is abandoned: Commit returns nil, no file enters the
// version, the keys are reported absent.
import (
	"fmt"
	"os"
	"path/filepath"

	v1 "github.com/lindb/lindb/index/v1"
	"github.com/lindb/lindb/kv"
)

func must(err error) {
	if err != nil {
		panic(err)
	}
}

func main() {
	root, _ := os.MkdirTemp("", "f26-")
	defer os.RemoveAll(root)
	path := filepath.Join(root, "store")
	s, err := kv.GetStoreManager().CreateStore(path, kv.DefaultStoreOption())
	must(err)
	f, err := s.CreateFamily("f", kv.FamilyOption{Merger: string(v1.IndexKVMerger)})
	must(err)
	fl := f.NewFlusher()
	for _, k := range []uint32{1, 2, 70000} {
		must(fl.Add(k, nil))
	}
	err = fl.Commit()
	fl.Release()
	fmt.Printf("Commit of 3 keys with empty values -> err=%v\n", err)
	bad := 0
	snap := f.GetSnapshot()
	fmt.Printf("files in the committed version: %d\n", len(snap.GetCurrent().GetAllFiles()))
	for _, k := range []uint32{1, 2, 70000} {
		found := false
		must(snap.Load(k, func(v []byte) error { found = true; return nil }))
		if !found {
			fmt.Printf("key %d: committed, but reported absent\n", k)
			bad++
		}
	}
	snap.Close()
	if bad > 0 {
		fmt.Println("FAIL")
		os.Exit(1)
	}
	fmt.Println("PASS: every committed key is found")
}
