#!/bin/sh
# one-off triage harness for F10 (not a registered check): needs a demo-only export file inside /repo/replica,
# copied in and removed again.
set -u
export GOFLAGS=-mod=mod GOPROXY=off GOSUMDB=off GOTOOLCHAIN=local
HERE="$(cd "$(dirname "$0")" && pwd)"; ROOT="${1:-/repo}"
cleanup() { rm -f "$ROOT/replica/zz_export_demo.go"; rm -rf "$ROOT/zz_triage_f10"; }
trap cleanup EXIT
cp "$HERE/zz_export_demo.go.txt" "$ROOT/replica/zz_export_demo.go"
mkdir -p "$ROOT/zz_triage_f10" && cp "$HERE"/*.go "$ROOT/zz_triage_f10/"
cd "$ROOT" && go run ./zz_triage_f10 2>&1 | grep -v "INFO\|WARN\|^$"
