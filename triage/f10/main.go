package main

// F10 triage (C08): the leader lost exactly one tail message of its log (the follower is one ahead).
// remoteReplicator.IsReady treats "follower ack > leader append index" as the lost-tail case but
// compares against AppendIndex() which is already appended+1, so a follower exactly one ahead is missed.
import (
	"fmt"
	"time"
)

func main() {
	h := newHarness()
	h.write(3) // leader positions 0..2
	// the follower already holds 0..3: 0..2 identical, 3 is the tail message the leader lost
	for i := 0; i < 3; i++ {
		must(h.followerQ.Queue().Put(h.written[i]))
		h.followerStored[int64(i)] = true
	}
	must(h.followerQ.Queue().Put([]byte("tail-message-the-leader-lost")))
	h.followerStored[3] = true
	fmt.Println("follower appended:", h.followerQ.Queue().AppendedSeq(), " leader appended:", h.leaderQ.Queue().AppendedSeq())
	// the replica loop blocks when there is nothing to consume: run it in the background
	go func() {
		for {
			h.step()
		}
	}()
	time.Sleep(500 * time.Millisecond)
	g := h.group()
	fmt.Printf("after handshake: leader consumed=%d ack=%d appended=%d (ack<=consumed<=appended? %v)\n",
		g.ConsumedSeq(), g.AcknowledgedSeq(), h.leaderQ.Queue().AppendedSeq(),
		g.AcknowledgedSeq() <= g.ConsumedSeq() && g.ConsumedSeq() <= h.leaderQ.Queue().AppendedSeq())
	h.write(1) // leader stores a NEW message at its next position
	time.Sleep(1500 * time.Millisecond)
	last := int64(len(h.written) - 1)
	lpos := h.leaderQ.Queue().AppendedSeq()
	got, err := h.followerQ.Queue().Get(lpos)
	fmt.Printf("leader stored the new message at position %d; follower holds at %d: %q (err=%v); leader stored %q\n", lpos, lpos, got, err, h.written[last])
	if err != nil || string(got) != string(h.written[last]) {
		fmt.Println("FAIL: follower holds different bytes (or nothing) at a position the leader holds, and the channel is idle")
		return
	}
	fmt.Println("PASS")
}
