package main

// In-process harness: a real leader partition (fan-out queue + remote replicator) talks to a real
// follower partition through the real storage ReplicaHandler. Only the network (grpc client/stream),
// the state manager and the tsdb shard/family are faked. Faults are injected on the fake stream.

import (
	"context"
	"errors"
	"fmt"
	"io"
	"os"
	"path/filepath"
	"sync"

	commontimeutil "github.com/lindb/common/pkg/timeutil"
	"google.golang.org/grpc"
	"google.golang.org/grpc/metadata"

	storagerpc "github.com/lindb/lindb/app/storage/rpc"
	"github.com/lindb/lindb/coordinator/storage"
	"github.com/lindb/lindb/models"
	"github.com/lindb/lindb/pkg/option"
	"github.com/lindb/lindb/pkg/queue"
	"github.com/lindb/lindb/pkg/timeutil"
	protoReplicaV1 "github.com/lindb/lindb/proto/gen/v1/replica"
	"github.com/lindb/lindb/replica"
	"github.com/lindb/lindb/rpc"
	"github.com/lindb/lindb/tsdb"
)

const (
	leaderID   = models.NodeID(1)
	followerID = models.NodeID(2)
	dbName     = "demo_db"
)

// ---- tsdb fakes ----

type fakeDB struct {
	tsdb.Database
	opt *option.DatabaseOption
}

func (d *fakeDB) Name() string                      { return dbName }
func (d *fakeDB) GetOption() *option.DatabaseOption { return d.opt }

type fakeShard struct {
	tsdb.Shard
	db *fakeDB
}

func (s *fakeShard) Database() tsdb.Database { return s.db }
func (s *fakeShard) ShardID() models.ShardID { return 1 }

type fakeFamily struct {
	tsdb.DataFamily
	start int64
}

func (f *fakeFamily) FamilyTime() int64 { return f.start }
func (f *fakeFamily) TimeRange() timeutil.TimeRange {
	return timeutil.TimeRange{Start: f.start, End: f.start + commontimeutil.OneHour}
}
func (f *fakeFamily) AckSequence(_ int32, _ func(seq int64)) {}
func (f *fakeFamily) Retain()                                {}

// ---- state manager fake ----

type fakeStateMgr struct {
	storage.StateManager
	mu      sync.Mutex
	watches []func(state models.NodeStateType)
}

func (m *fakeStateMgr) GetLiveNode(id models.NodeID) (models.StatefulNode, bool) {
	return models.StatefulNode{ID: id}, true
}

func (m *fakeStateMgr) WatchNodeStateChangeEvent(_ models.NodeID, fn func(state models.NodeStateType)) {
	m.mu.Lock()
	m.watches = append(m.watches, fn)
	m.mu.Unlock()
}

// ---- follower side: wal manager fake handing out the current follower partition ----

type fakeWAL struct {
	replica.WriteAheadLog
	h *harness
}

func (w *fakeWAL) GetOrCreatePartition(_ models.ShardID, _ int64, _ models.NodeID) (replica.Partition, error) {
	w.h.mu.Lock()
	defer w.h.mu.Unlock()
	return w.h.follower, nil
}

type fakeWALMgr struct {
	replica.WriteAheadLogManager
	wal *fakeWAL
}

func (m *fakeWALMgr) GetOrCreateLog(_ string) replica.WriteAheadLog { return m.wal }

// ---- network fakes ----

type fakeCliFct struct {
	rpc.ClientStreamFactory
	h *harness
}

func (f *fakeCliFct) CreateReplicaServiceClient(_ models.Node) (protoReplicaV1.ReplicaServiceClient, error) {
	return &fakeClient{h: f.h}, nil
}

type fakeClient struct{ h *harness }

func (c *fakeClient) Reset(ctx context.Context, in *protoReplicaV1.ResetIndexRequest,
	_ ...grpc.CallOption) (*protoReplicaV1.ResetIndexResponse, error) {
	c.h.logf("   rpc Reset(appendIndex=%d)", in.AppendIndex)
	return c.h.handler.Reset(ctx, in)
}

func (c *fakeClient) GetReplicaAckIndex(ctx context.Context, in *protoReplicaV1.GetReplicaAckIndexRequest,
	_ ...grpc.CallOption) (*protoReplicaV1.GetReplicaAckIndexResponse, error) {
	resp, err := c.h.handler.GetReplicaAckIndex(ctx, in)
	if err == nil {
		c.h.logf("   rpc GetReplicaAckIndex -> %d", resp.AckIndex)
	}
	return resp, err
}

// Replica opens a bidirectional stream served by the real ReplicaHandler.Replica in a goroutine.
func (c *fakeClient) Replica(ctx context.Context, _ ...grpc.CallOption) (protoReplicaV1.ReplicaService_ReplicaClient, error) {
	md, _ := metadata.FromOutgoingContext(ctx)
	sctx, cancel := context.WithCancel(metadata.NewIncomingContext(context.Background(), md))
	s := &pipe{
		h:      c.h,
		ctx:    sctx,
		cancel: cancel,
		reqs:   make(chan *protoReplicaV1.ReplicaRequest),
		resps:  make(chan *protoReplicaV1.ReplicaResponse),
		done:   make(chan struct{}),
	}
	go func() {
		defer close(s.done)
		_ = c.h.handler.Replica(&serverSide{pipe: s})
	}()
	return &clientSide{pipe: s}, nil
}

type pipe struct {
	h      *harness
	ctx    context.Context
	cancel context.CancelFunc
	reqs   chan *protoReplicaV1.ReplicaRequest
	resps  chan *protoReplicaV1.ReplicaResponse
	done   chan struct{}
	broken bool
}

var errStreamBroken = errors.New("injected: transport is closing")

type clientSide struct {
	grpc.ClientStream
	*pipe
}

func (c *clientSide) Send(req *protoReplicaV1.ReplicaRequest) error {
	if c.broken {
		return errStreamBroken
	}
	if c.h.failNextSend {
		// the connection breaks before the request reaches the follower
		c.h.failNextSend = false
		c.breakStream()
		c.h.logf("   stream: Send(idx=%d) FAILS (injected), follower never sees it", req.ReplicaIndex)
		return errStreamBroken
	}
	select {
	case c.reqs <- req:
		return nil
	case <-c.done:
		return errStreamBroken
	}
}

func (c *clientSide) Recv() (*protoReplicaV1.ReplicaResponse, error) {
	if c.broken {
		return nil, errStreamBroken
	}
	select {
	case resp := <-c.resps:
		if c.h.failNextRecv {
			// follower handled the request, but the response is lost
			c.h.failNextRecv = false
			c.breakStream()
			c.h.logf("   stream: Recv FAILS (injected), follower's answer (ack=%d) is lost", resp.AckIndex)
			return nil, errStreamBroken
		}
		return resp, nil
	case <-c.done:
		return nil, errStreamBroken
	}
}

func (c *clientSide) breakStream() {
	c.broken = true
	c.cancel()
	<-c.done
}

func (c *clientSide) CloseSend() error {
	if !c.broken {
		c.broken = true
		c.cancel()
		<-c.done
	}
	return nil
}

type serverSide struct {
	grpc.ServerStream
	*pipe
}

func (s *serverSide) Context() context.Context { return s.ctx }

func (s *serverSide) Recv() (*protoReplicaV1.ReplicaRequest, error) {
	select {
	case req := <-s.reqs:
		return req, nil
	case <-s.ctx.Done():
		return nil, io.EOF
	}
}

func (s *serverSide) Send(resp *protoReplicaV1.ReplicaResponse) error {
	if resp.Err == "" && resp.AckIndex == resp.ReplicaIndex {
		s.h.mu.Lock()
		s.h.followerStored[resp.ReplicaIndex] = true // follower appended this position
		s.h.mu.Unlock()
	}
	select {
	case s.resps <- resp:
		return nil
	case <-s.ctx.Done():
		return errStreamBroken
	}
}

// ---- harness ----

type harness struct {
	mu   sync.Mutex
	root string
	ctx  context.Context

	shard  *fakeShard
	family *fakeFamily
	stMgr  *fakeStateMgr

	leaderQ   queue.FanOutQueue
	leader    replica.Partition
	followerQ queue.FanOutQueue
	follower  replica.Partition
	followerN int

	handler *storagerpc.ReplicaHandler

	failNextSend bool
	failNextRecv bool

	written        [][]byte       // written[i] = bytes the leader stored at log position i
	followerStored map[int64]bool // positions the current follower disk really appended
}

func (h *harness) logf(format string, args ...interface{}) {
	fmt.Printf(format+"\n", args...)
}

func must(err error) {
	if err != nil {
		fmt.Println("HARNESS ERROR:", err)
		os.Exit(3)
	}
}

func newHarness() *harness {
	root, err := os.MkdirTemp("", "c08-demo-")
	must(err)
	now := commontimeutil.Now()
	h := &harness{
		root:   root,
		ctx:    context.Background(),
		shard:  &fakeShard{db: &fakeDB{opt: &option.DatabaseOption{}}},
		family: &fakeFamily{start: now - now%commontimeutil.OneHour},
		stMgr:  &fakeStateMgr{},

		followerStored: make(map[int64]bool),
	}
	h.handler = storagerpc.NewReplicaHandler(&fakeWALMgr{wal: &fakeWAL{h: h}})

	h.leaderQ, err = queue.NewFanOutQueue(filepath.Join(root, "leader"), 0)
	must(err)
	h.leader = replica.NewPartition(h.ctx, h.shard, h.family, leaderID, h.leaderQ, &fakeCliFct{h: h}, h.stMgr)
	must(h.leader.BuildReplicaForLeader(leaderID, []models.NodeID{followerID}))

	h.newFollower()
	return h
}

// newFollower (re)creates the follower partition on an empty disk.
func (h *harness) newFollower() {
	h.mu.Lock()
	defer h.mu.Unlock()
	if h.follower != nil {
		_ = h.follower.Close()
	}
	h.followerN++
	h.followerStored = make(map[int64]bool) // empty disk
	q, err := queue.NewFanOutQueue(filepath.Join(h.root, fmt.Sprintf("follower-%d", h.followerN)), 0)
	must(err)
	h.followerQ = q
	h.follower = replica.NewPartition(h.ctx, h.shard, h.family, followerID, q, nil, h.stMgr)
}

func (h *harness) close() {
	_ = h.leader.Close()
	_ = h.follower.Close()
	_ = os.RemoveAll(h.root)
}

// write appends n new messages to the leader's log.
func (h *harness) write(n int) {
	for i := 0; i < n; i++ {
		idx := len(h.written)
		msg := []byte(fmt.Sprintf("message-%03d-payload", idx))
		must(h.leader.WriteLog(msg))
		h.written = append(h.written, msg)
		if got := h.leaderQ.Queue().AppendedSeq(); got != int64(idx) {
			must(fmt.Errorf("leader stored message at %d, expected %d", got, idx))
		}
	}
	h.logf("leader: appended up to position %d", len(h.written)-1)
}

func (h *harness) group() queue.ConsumerGroup {
	cg, err := h.leaderQ.GetOrCreateConsumerGroup(fmt.Sprintf("%d", followerID))
	must(err)
	return cg
}

// hasWork tells if one more replication step can make progress without blocking on an empty queue.
func (h *harness) hasWork() bool {
	r := replica.DemoReplicator(h.leader, followerID)
	st, _ := replica.DemoState(r)
	if st != models.ReplicatorReadyState {
		return true // needs handshake
	}
	return h.group().ConsumedSeq() < h.leaderQ.Queue().AppendedSeq()
}

// step runs exactly one round of the leader's replica loop for the follower.
func (h *harness) step() {
	replica.DemoStep(h.leader, followerID)
	r := replica.DemoReplicator(h.leader, followerID)
	st, msg := replica.DemoState(r)
	h.logf(" step: leader[consumed=%d ack=%d appended=%d] follower[appended=%d] state=%s %s",
		h.group().ConsumedSeq(), h.group().AcknowledgedSeq(), h.leaderQ.Queue().AppendedSeq(),
		h.followerQ.Queue().AppendedSeq(), st, msg)
}

// drain steps until the leader has nothing left to send (bounded).
func (h *harness) drain(max int) {
	for i := 0; i < max && h.hasWork(); i++ {
		h.step()
	}
	if h.hasWork() {
		h.logf("WARN: channel did not quiesce within %d steps", max)
	}
}

// verify checks positions [from, upto] on the follower against what the leader stored.
// Returns the list of violations.
func (h *harness) verify(from, upto int64) (violations []string) {
	ack := h.group().AcknowledgedSeq()
	fAppended := h.followerQ.Queue().AppendedSeq()
	h.logf("verify: leader ack for follower=%d, follower appended=%d, checking positions %d..%d", ack, fAppended, from, upto)
	if ack > fAppended {
		violations = append(violations,
			fmt.Sprintf("leader acknowledged up to %d but follower only appended up to %d", ack, fAppended))
	}
	for i := from; i <= upto; i++ {
		want := h.written[i]
		got, err := h.followerQ.Queue().Get(i)
		switch {
		case !h.followerStored[i] && i <= ack:
			violations = append(violations,
				fmt.Sprintf("position %d: leader treats it as acknowledged, but the follower NEVER appended it (follower Get: %v)", i, err))
		case err != nil && i <= ack:
			violations = append(violations,
				fmt.Sprintf("position %d: leader treats it as acknowledged, follower does not hold it (%v)", i, err))
		case err != nil && i <= fAppended:
			violations = append(violations, fmt.Sprintf("position %d: hole in follower log (%v)", i, err))
		case err != nil:
			violations = append(violations, fmt.Sprintf("position %d: never replicated (%v)", i, err))
		case string(got) != string(want):
			violations = append(violations,
				fmt.Sprintf("position %d: follower holds %q, leader stored %q", i, got, want))
		}
	}
	return violations
}

func (h *harness) finish(violations []string) {
	h.close()
	if len(violations) > 0 {
		fmt.Println("FAIL: replication property violated:")
		for _, v := range violations {
			fmt.Println("  -", v)
		}
		os.Exit(1)
	}
	fmt.Println("PASS: follower log is a gap-free, byte-identical copy; acks are honest")
}
