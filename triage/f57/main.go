// F57 triage (C16): duplicate tag keys are resolved after an UNSTABLE sort (sort.Sort): with more than 12 tags which value of a
// repeated key survives depends on the order the tags were sent in - here the enriched tag (appended last, "must win") loses.
// Program written by a seeding sub-agent (C16 observation O1, round 8), protobuf part. exit 1 = the client value won.
package main

import (
	"fmt"
	"math/rand"
	"os"
	"strings"

	"github.com/lindb/common/proto/gen/v1/flatMetricsV1"
	protoMetricsV1 "github.com/lindb/common/proto/gen/v1/linmetrics"

	"github.com/lindb/lindb/models"
	"github.com/lindb/lindb/series/metric"
	"github.com/lindb/lindb/series/tag"
)

func tagsOf(row *metric.BrokerRow) string {
	m := row.Metric()
	var sb strings.Builder
	var kv flatMetricsV1.KeyValue
	for i := 0; i < m.KeyValuesLength(); i++ {
		m.KeyValues(&kv, i)
		sb.WriteString(string(kv.Key()) + "=" + string(kv.Value()) + ",")
	}
	return sb.String()
}

func main() {
	limits := models.NewDefaultLimits()
	rnd := rand.New(rand.NewSource(1))
	bad := false
	for try := 0; try < 20000; try++ {
		n := 13 + rnd.Intn(18)
		pos := rnd.Intn(n)
		var tags []*protoMetricsV1.KeyValue
		perm := rnd.Perm(n)
		for i := 0; i < n; i++ {
			if i == pos {
				tags = append(tags, &protoMetricsV1.KeyValue{Key: "m", Value: "client"})
			} else {
				tags = append(tags, &protoMetricsV1.KeyValue{Key: fmt.Sprintf("%c%02d", 'a'+byte(perm[i]%26), perm[i]), Value: "v"})
			}
		}
		var in []string
		for _, t := range tags {
			in = append(in, t.Key+"="+t.Value)
		}
		cvt, rel := metric.NewBrokerRowProtoConverter([]byte("ns"), tag.Tags{tag.NewTag([]byte("m"), []byte("enriched"))}, limits)
		var row metric.BrokerRow
		err := cvt.ConvertTo(&protoMetricsV1.Metric{Name: "m", Timestamp: 1, Tags: tags,
			SimpleFields: []*protoMetricsV1.SimpleField{{Name: "f", Type: protoMetricsV1.SimpleFieldType_LAST, Value: 1}}}, &row)
		rel(cvt)
		if err != nil {
			fmt.Println(err)
			os.Exit(2)
		}
		if !strings.Contains(tagsOf(&row), "m=enriched") {
			fmt.Printf("  proto try=%d n=%d: client value wins over enriched tag\n   sent: %s + enrich m=enriched\n   stored: %s\n", try, n, strings.Join(in, ","), tagsOf(&row))
			bad = true
			break
		}
	}
	if bad {
		fmt.Println("FAIL: which value of a repeated tag key is stored depends on the order of the tags")
		os.Exit(1)
	}
	fmt.Println("PASS: the enriched tag won in 20000 random tag orders")
}
