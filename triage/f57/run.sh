#!/bin/sh
# one-off triage harness for F57 (not a registered check). exit 1 = stored tag value depends on tag order
set -u
ROOT=$(cd "${1:-/repo}" && pwd); HERE=$(cd "$(dirname "$0")" && pwd)
export GOFLAGS=-mod=mod GOPROXY=off GOSUMDB=off GOTOOLCHAIN=local
trap 'rm -rf "$ROOT/zz_triage_f57"' EXIT
mkdir -p "$ROOT/zz_triage_f57"; cp "$HERE/main.go" "$ROOT/zz_triage_f57/main.go"
cd "$ROOT" && go run ./zz_triage_f57
