// F59 triage (C16): a row whose own timestamp lies outside the family range computed from it (timestamp -1: the segment is
// computed for 1970-01-01, the range [0, 3599999] does not contain -1) opens a family group that stays empty; HasNextFamily then
// answers "no more families" and every remaining row of that shard is dropped, while the write reports success.
// Scenario by a seeding sub-agent (C16 observation O3, round 8). exit 1 = rows of the batch were not handed out.
package main

import (
	"fmt"
	"os"

	protoMetricsV1 "github.com/lindb/common/proto/gen/v1/linmetrics"

	"github.com/lindb/lindb/models"
	"github.com/lindb/lindb/pkg/timeutil"
	"github.com/lindb/lindb/series/metric"
)

func main() {
	limits := models.NewDefaultLimits()
	cvt, rel := metric.NewBrokerRowProtoConverter([]byte("ns"), nil, limits)
	defer rel(cvt)
	batch := metric.NewBrokerBatchRows()
	now := int64(1700000000000)
	for _, ts := range []int64{now, -1, now + 1} {
		ts := ts
		_ = batch.TryAppend(func(row *metric.BrokerRow) error {
			return cvt.ConvertTo(&protoMetricsV1.Metric{Name: "m", Timestamp: ts,
				Tags:         []*protoMetricsV1.KeyValue{{Key: "a", Value: "b"}},
				SimpleFields: []*protoMetricsV1.SimpleField{{Name: "f", Type: protoMetricsV1.SimpleFieldType_LAST, Value: 1}}}, row)
		})
	}
	for i := range batch.Rows() { // what EvictOutOfTimeRange does for the row outside the write window
		m := batch.Rows()[i].Metric()
		batch.Rows()[i].IsOutOfTimeRange = m.Timestamp() < 0
	}
	itr := batch.NewShardGroupIterator(4)
	emitted, valid := 0, 0
	for itr.HasRowsForNextShard() {
		shard, fitr := itr.FamilyRowsForNextShard(timeutil.Interval(10 * 1000))
		for fitr.HasNextFamily() {
			ft, rows := fitr.NextFamily()
			for i := range rows {
				m := rows[i].Metric()
				fmt.Printf("[obs] shard %d family %d row ts=%d evicted=%v\n", shard, ft, m.Timestamp(), rows[i].IsOutOfTimeRange)
				emitted++
				if !rows[i].IsOutOfTimeRange {
					valid++
				}
			}
		}
	}
	fmt.Printf("[obs] rows in batch: %d, handed out: %d, of them inside the write window: %d (want 2)\n", batch.Len(), emitted, valid)
	if valid != 2 {
		fmt.Println("FAIL: rows inside the write window were dropped because of another row of the batch")
		os.Exit(1)
	}
	fmt.Println("PASS")
}
