#!/bin/sh
# one-off triage harness for F59 (not a registered check). exit 1 = valid rows dropped
set -u
ROOT=$(cd "${1:-/repo}" && pwd); HERE=$(cd "$(dirname "$0")" && pwd)
export GOFLAGS=-mod=mod GOPROXY=off GOSUMDB=off GOTOOLCHAIN=local TZ=UTC
trap 'rm -rf "$ROOT/zz_triage_f59"' EXIT
mkdir -p "$ROOT/zz_triage_f59"; cp "$HERE/main.go" "$ROOT/zz_triage_f59/main.go"
cd "$ROOT" && go run ./zz_triage_f59
