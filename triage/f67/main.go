// F67 triage (C19): one receiver without a registered stream silences the receivers behind it.
// Real LeafExecuteContext.SendResponse + the real rpc.TaskServerFactory; only the grpc stream is a recorder.
// exit 1 = a receiver whose stream IS registered got no response.
package main

import (
	"context"
	"errors"
	"fmt"
	"os"
	"time"

	"google.golang.org/grpc"

	"github.com/lindb/lindb/flow"
	"github.com/lindb/lindb/models"
	protoCommonV1 "github.com/lindb/lindb/proto/gen/v1/common"
	queryctx "github.com/lindb/lindb/query/context"
	trackerpkg "github.com/lindb/lindb/query/tracker"
	"github.com/lindb/lindb/rpc"
	stmtpkg "github.com/lindb/lindb/sql/stmt"
)

type recorder struct {
	grpc.ServerStream
	got []*protoCommonV1.TaskResponse
}

func (r *recorder) Send(resp *protoCommonV1.TaskResponse) error {
	r.got = append(r.got, resp)
	return nil
}
func (r *recorder) Recv() (*protoCommonV1.TaskRequest, error) { return nil, errors.New("n/a") }
func (r *recorder) Context() context.Context                  { return context.Background() }

func main() {
	factory := rpc.NewTaskServerFactory()
	b := &recorder{}
	factory.Register("b", b) // receiver "a" is reconnecting: no stream registered
	taskCtx := flow.NewTaskContextWithTimeout(context.Background(), time.Minute)
	q := &stmtpkg.Query{MetricName: "cpu", Interval: 10000, StorageInterval: 10000, IntervalRatio: 1}
	leaf := queryctx.NewLeafExecuteContext(taskCtx, trackerpkg.NewStageTracker(taskCtx), q,
		&protoCommonV1.TaskRequest{RequestID: "f67"}, factory,
		&models.Target{Indicator: "leaf", ShardIDs: []models.ShardID{1}}, []string{"a", "b"}, nil)
	leaf.SendResponse(errors.New("shard 1 failed"))
	fmt.Printf("responses received by b: %d\n", len(b.got))
	if len(b.got) != 1 {
		fmt.Println("FAIL: receiver b has a stream and waits for this leaf, it got no response (neither data nor the error)")
		os.Exit(1)
	}
	fmt.Println("PASS")
}
