// Reproduction of observation O2 on the UNCHANGED tree: WriteRows picks the mutable memory database, a flush freezes
// and flushes it before WriteRows registered itself with AcquireWrite.
package main

import (
	"fmt"
	"os"
	"sync/atomic"
	"time"

	"github.com/lindb/lindb/tsdb"
)

func main() {
	phase, dir := os.Args[1], os.Args[2]
	switch phase {
	case "phase1":
		var armed atomic.Bool
		reached, release := make(chan struct{}), make(chan struct{})
		tsdb.DemoBeforeAcquireWrite(func() {
			if armed.CompareAndSwap(true, false) {
				close(reached)
				<-release
			}
		})
		n := openNode(dir)
		n.appendEntry("m0", "e0", 0)
		armed.Store(true)
		must(n.part.WriteLog(entry("m1", "e1")), "write log") // entry 1, local replicator stops before AcquireWrite
		<-reached
		// freezes + flushes the memory database the writer is going to write into; on a tree where the bracket is opened under the
		// family mutex the flush job has to wait for the parked writer instead: release it after 2s and let the job finish
		done := make(chan error, 1)
		go func() { done <- n.flushAll() }()
		select {
		case err := <-done:
			must(err, "flush job")
			a, k := n.logState()
			fmt.Printf("phase1: flush job done while entry 1 is in WriteRows: log append=%d ack=%d stored seq=%d\n", a, k, n.persistedSeq())
			close(release)
		case <-time.After(2 * time.Second):
			fmt.Println("phase1: the flush job waits for the writer that already picked the memory database")
			close(release)
			must(<-done, "flush job")
		}
		a, k := n.logState()
		n.waitApplied(1)
		n.appendEntry("m2", "e2", 2)
		must(n.flushAll(), "flush job 2")
		a, k = n.logState()
		fmt.Printf("phase1: CRASH after 2nd flush job: log append=%d ack=%d stored seq=%d\n", a, k, n.persistedSeq())
		os.Exit(0)
	case "phase2":
		n := openNode(dir)
		a, k := n.logState()
		fmt.Printf("phase2: recovered: log append=%d ack=%d stored seq=%d\n", a, k, n.persistedSeq())
		n.waitReplayed()
		must(n.flushAll(), "flush")
		bad := false
		for i, e := range [][2]string{{"m0", "e0"}, {"m1", "e1"}, {"m2", "e2"}} {
			ok := n.flushed(e[0], e[1])
			fmt.Printf("phase2: log entry %d (%s{host=%s}) found by name+tag: %v\n", i, e[0], e[1], ok)
			bad = bad || !ok
		}
		n.shutdown()
		if bad {
			fmt.Println("VIOLATION: acknowledged entry is in no table and is not replayed")
			os.Exit(1)
		}
		fmt.Println("OK")
	}
}
