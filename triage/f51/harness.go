// Demo-only harness: a single storage node (tsdb engine + write ahead log manager) in a temp dir.
package main

import (
	"bytes"
	"context"
	"fmt"
	"os"
	"path/filepath"
	"time"

	"github.com/lindb/common/pkg/ltoml"
	commontimeutil "github.com/lindb/common/pkg/timeutil"
	protoMetricsV1 "github.com/lindb/common/proto/gen/v1/linmetrics"

	"github.com/lindb/lindb/config"
	"github.com/lindb/lindb/models"
	"github.com/lindb/lindb/pkg/compress"
	"github.com/lindb/lindb/pkg/option"
	"github.com/lindb/lindb/pkg/timeutil"
	"github.com/lindb/lindb/replica"
	"github.com/lindb/lindb/series/metric"
	"github.com/lindb/lindb/sql/stmt"
	"github.com/lindb/lindb/tsdb"
	"github.com/lindb/lindb/tsdb/tblstore/metricsdata"
)

const (
	dbName  = "demo"
	tagKey  = "host"
	nodeID  = models.NodeID(1)
	shardID = models.ShardID(0)
)

var (
	interval      = timeutil.Interval(10 * 1000)
	pointTime, _  = commontimeutil.ParseTimestamp("20190702 19:10:00", "20060102 15:04:05")
	familyTime    = interval.Calculator().CalcFamilyTime(pointTime)
	leaderForSeqs = int32(nodeID)
)

type node struct {
	engine tsdb.Engine
	walMgr replica.WriteAheadLogManager
	db     tsdb.Database
	shard  tsdb.Shard
	family tsdb.DataFamily
	part   replica.Partition
	cancel context.CancelFunc
}

func must(err error, what string) {
	if err != nil {
		fmt.Printf("HARNESS ERROR: %s: %v\n", what, err)
		os.Exit(3)
	}
}

// openNode starts the storage node on dir: loads the engine, recovers the write ahead logs(replays them).
func openNode(dir string) *node {
	cfg := config.NewDefaultStorageBase()
	cfg.TSDB.Dir = filepath.Join(dir, "data")
	cfg.WAL.Dir = filepath.Join(dir, "wal")
	cfg.WAL.RemoveTaskInterval = ltoml.Duration(time.Hour)
	cfg.TSDB.FlushConcurrency = 1
	config.SetGlobalStorageConfig(cfg)

	n := &node{}
	var err error
	n.engine, err = tsdb.NewEngine()
	must(err, "new engine")
	opt := &option.DatabaseOption{
		Intervals:    option.Intervals{{Interval: interval}},
		AutoCreateNS: true,
	}
	must(n.engine.CreateShards(dbName, opt, shardID), "create shard")
	db, ok := n.engine.GetDatabase(dbName)
	if !ok {
		must(fmt.Errorf("not found"), "get database")
	}
	n.db = db
	n.shard, _ = db.GetShard(shardID)

	ctx, cancel := context.WithCancel(context.Background())
	n.cancel = cancel
	n.walMgr = replica.NewWriteAheadLogManager(ctx, cfg.WAL, nodeID, n.engine, nil, nil)
	must(n.walMgr.Recovery(), "wal recovery")

	n.family, err = n.shard.GetOrCrateDataFamily(familyTime)
	must(err, "get family")
	// same as the write handler of storage: get partition, build replica relation(leader = follower = this node)
	n.part, err = n.walMgr.GetOrCreateLog(dbName).GetOrCreatePartition(shardID, familyTime, nodeID)
	must(err, "get partition")
	must(n.part.BuildReplicaForLeader(nodeID, []models.NodeID{nodeID}), "build replica")
	return n
}

// entry builds the write ahead log message(compressed batch of rows) with one point of series <metricName>{host=<host>}.
func entry(metricName, host string) []byte {
	ml := protoMetricsV1.MetricList{Metrics: []*protoMetricsV1.Metric{{
		Name:      metricName,
		Timestamp: pointTime,
		Tags:      []*protoMetricsV1.KeyValue{{Key: tagKey, Value: host}},
		SimpleFields: []*protoMetricsV1.SimpleField{{
			Name: "f1", Value: 1.0, Type: protoMetricsV1.SimpleFieldType_DELTA_SUM,
		}},
	}}}
	var buf bytes.Buffer
	converter := metric.NewProtoConverter(models.NewDefaultLimits())
	_, err := converter.MarshalProtoMetricListV1To(ml, &buf)
	must(err, "marshal rows")
	w := compress.NewSnappyWriter()
	_, err = w.Write(buf.Bytes())
	must(err, "compress")
	must(w.Close(), "compress close")
	return w.Bytes()
}

// appendEntry appends the entry to the log, waits until the local replicator applied it(sequence committed in family).
func (n *node) appendEntry(metricName, host string, seq int64) {
	must(n.part.WriteLog(entry(metricName, host)), "write log")
	n.waitApplied(seq)
}

func (n *node) appliedSeq() int64 {
	state := n.family.GetState()
	if seq, ok := state.ReplicaSequences[leaderForSeqs]; ok {
		return seq
	}
	return -1
}

func (n *node) persistedSeq() int64 {
	snapshot := n.family.Family().GetSnapshot()
	defer snapshot.Close()
	if seq, ok := snapshot.GetCurrent().GetSequences()[leaderForSeqs]; ok {
		return seq
	}
	return -1
}

// logState returns append/ack of the family log(ack of the local replicator's consumer group).
func (n *node) logState() (appended, ack int64) {
	for _, s := range n.walMgr.GetReplicaState(dbName) {
		for _, r := range s.Replicators {
			return s.Append, r.ACK
		}
	}
	return -1, -1
}

func (n *node) waitApplied(seq int64) {
	deadline := time.Now().Add(10 * time.Second)
	for time.Now().Before(deadline) {
		if n.appliedSeq() >= seq {
			return
		}
		time.Sleep(5 * time.Millisecond)
	}
	must(fmt.Errorf("applied=%d want=%d", n.appliedSeq(), seq), "wait local replication")
}

// waitReplayed waits until the local replicator consumed the whole log.
func (n *node) waitReplayed() {
	deadline := time.Now().Add(10 * time.Second)
	for time.Now().Before(deadline) {
		done := true
		for _, s := range n.walMgr.GetReplicaState(dbName) {
			for _, r := range s.Replicators {
				if r.Consume < s.Append {
					done = false
				}
			}
		}
		if done {
			time.Sleep(100 * time.Millisecond) // the last consumed message is being applied
			return
		}
		time.Sleep(5 * time.Millisecond)
	}
	must(fmt.Errorf("timeout"), "wait replay")
}

// flushAll does the flush job like data flush checker: metadata -> shard index -> family data.
func (n *node) flushAll() error {
	if err := n.db.FlushMeta(); err != nil {
		return err
	}
	n.db.WaitFlushMetaCompleted()
	if err := n.shard.FlushIndex(); err != nil {
		return err
	}
	n.shard.WaitFlushIndexCompleted()
	return n.family.Flush()
}

// shutdown stops the node like database lifecycle does.
func (n *node) shutdown() {
	n.walMgr.Stop()
	n.engine.Close()
	_ = n.walMgr.Close()
	n.cancel()
}

// flushed resolves metric name -> metric id -> tag key -> tag value -> series ids via metadata/index(like a query by
// name and tags does), then checks if the series has a data block in the table files of the family.
func (n *node) flushed(metricName, host string) bool {
	metricID, err := n.db.MetaDB().GetMetricID("default-ns", metricName)
	if err != nil {
		fmt.Printf("  lookup metric %s: %v\n", metricName, err)
		return false
	}
	schema, err := n.db.MetaDB().GetSchema(metricID)
	if err != nil || schema == nil {
		fmt.Printf("  lookup schema of %s: %v\n", metricName, err)
		return false
	}
	tm, ok := schema.TagKeys.Find(tagKey)
	if !ok {
		fmt.Printf("  tag key of %s not found\n", metricName)
		return false
	}
	tagValueIDs, err := n.db.MetaDB().FindTagValueDsByExpr(tm.ID, &stmt.EqualsExpr{Key: tagKey, Value: host})
	if err != nil || tagValueIDs == nil || tagValueIDs.IsEmpty() {
		return false
	}
	seriesIDs, err := n.shard.IndexDB().GetSeriesIDsByTagValueIDs(tm.ID, tagValueIDs)
	if err != nil || seriesIDs == nil || seriesIDs.IsEmpty() {
		return false
	}
	snapshot := n.family.Family().GetSnapshot()
	defer snapshot.Close()
	readers, err := snapshot.FindReaders(uint32(metricID))
	must(err, "find readers")
	for _, reader := range readers {
		value, err := reader.Get(uint32(metricID))
		if err != nil {
			continue
		}
		r, err := metricsdata.NewReader(reader.Path(), value)
		must(err, "metric reader")
		if r.GetSeriesIDs().Intersects(seriesIDs) {
			return true
		}
	}
	return false
}
