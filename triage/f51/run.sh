#!/bin/bash
# one-off triage harness for F51 (not a registered check); program written by a seeding sub-agent (C07 observation O2, round 8).
# usage: run.sh [repo-root]; exit 1 = the violation manifests (entry acknowledged, in no table, not replayed)
set -u
ROOT="$(cd "${1:-/repo}" && pwd)"; HERE="$(cd "$(dirname "$0")" && pwd)"
export GOFLAGS=-mod=mod GOPROXY=off GOSUMDB=off GOTOOLCHAIN=local
WORK="$(mktemp -d)"
cleanup() { rm -rf "$ROOT/zz_triage_f51" "$WORK" "$ROOT/tsdb/zz_export_demo.go"; }
trap cleanup EXIT
mkdir -p "$ROOT/zz_triage_f51"
cp "$HERE/main.go" "$HERE/harness.go" "$ROOT/zz_triage_f51/"
cp "$HERE/zz_export_demo.go.txt" "$ROOT/tsdb/zz_export_demo.go"
cd "$ROOT" || exit 3
go build -o "$WORK/demo.bin" ./zz_triage_f51 || exit 3
timeout 90 "$WORK/demo.bin" phase1 "$WORK/node" 2>&1 | grep -E '^(phase|VIOLATION|OK|HARNESS|  )'
[ "${PIPESTATUS[0]}" -eq 0 ] || { echo "phase1 failed"; exit 3; }
timeout 90 "$WORK/demo.bin" phase2 "$WORK/node" 2>&1 | grep -E '^(phase|VIOLATION|OK|HARNESS|  )'
exit "${PIPESTATUS[0]}"
