package main

// F17 triage (C09, C07): indexKVStore.PrepareFlush swaps mutable -> immutable whenever immutable == nil, also when the
// mutable store is EMPTY.  Flush returns early when the immutable store is empty (needFlush) and so never clears it;
// every later PrepareFlush then finds immutable != nil and never swaps again: nothing created after one idle
// metadata flush is ever written.  After a restart the names are gone although their ids were used in flushed data,
// and (the id sequence being synced) are generated again with different ids.
import (
	"fmt"
	"os"
	"path/filepath"

	"github.com/lindb/lindb/index"
	"github.com/lindb/lindb/series/field"
)

func must(err error) {
	if err != nil {
		panic(err)
	}
}

func main() {
	dir, _ := os.MkdirTemp("", "f17-")
	defer os.RemoveAll(dir)
	open := func() index.MetricMetaDatabase {
		db, err := index.NewMetricMetaDatabase("demo", filepath.Join(dir, "meta"))
		must(err)
		return db
	}
	flush := func(db index.MetricMetaDatabase) {
		db.PrepareFlush()
		must(db.Flush())
	}
	db := open()
	cpu, err := db.GenMetricID([]byte("ns"), []byte("cpu"))
	must(err)
	fmt.Printf("cpu -> %d\n", cpu)
	flush(db)
	fmt.Println("idle metadata flush (nothing new since the last one)")
	flush(db)
	mem, err := db.GenMetricID([]byte("ns"), []byte("mem"))
	must(err)
	fmt.Printf("mem -> %d\n", mem)
	fid, err := db.GenFieldID(cpu, field.Meta{Name: "usage", Type: field.SumField})
	must(err)
	fmt.Printf("field cpu.usage -> %d\n", fid)
	flush(db)
	flush(db)
	must(db.Close())

	db2 := open()
	bad := 0
	for name, want := range map[string]interface{}{"cpu": cpu, "mem": mem} {
		got, err := db2.GetMetricID("ns", name)
		if err != nil {
			fmt.Printf("FAIL: after reopen metric %s (id %v, created before two complete flushes) -> %v\n", name, want, err)
			bad++
			continue
		}
		fmt.Printf("after reopen: %s -> %d\n", name, got)
		if fmt.Sprint(got) != fmt.Sprint(want) {
			bad++
		}
	}
	if schema, err := db2.GetSchema(cpu); err != nil {
		fmt.Printf("FAIL: after reopen schema of cpu -> %v\n", err)
		bad++
	} else if schema == nil {
		fmt.Printf("FAIL: after reopen cpu has no schema at all: field cpu.usage (id %d, created before two complete flushes) is gone\n", fid)
		bad++
	} else if _, ok := schema.Fields.Find("usage"); !ok {
		fmt.Printf("FAIL: after reopen field cpu.usage (id %d, created before two complete flushes) is gone: fields %v\n", fid, schema.Fields)
		bad++
	}
	if bad > 0 {
		again, err := db2.GenMetricID([]byte("ns"), []byte("mem"))
		must(err)
		fmt.Printf("FAIL: mem is created again with id %d (was %d)\n", again, mem)
		os.Exit(1)
	}
	fmt.Println("PASS: every name created before the last flush survived the reopen with its id")
}
