package main

// F40 triage (C02): (*version).Clone copies the reference-mark map one level deep only: the inner map (family -> files) of
// a source store is shared between the new version and the version it was cloned from.  The edit log of the next commit is
// applied to the clone and edits that inner map in place, so a snapshot that retains the OLD version sees the reference
// recorded by a LATER commit (a snapshot is no longer stable), and the unsynchronised read of doRollupWork races with the
// write under the version-set mutex ("fatal error: concurrent map iteration and map write", seen by a sub-agent 2/6 runs).
import (
	"fmt"
	"os"
	"path/filepath"
	"time"

	"github.com/lindb/lindb/kv/table"
	"github.com/lindb/lindb/kv/version"
)

func must(err error) {
	if err != nil {
		panic(err)
	}
}

func main() {
	root, _ := os.MkdirTemp("", "f40-")
	defer os.RemoveAll(root)
	path := filepath.Join(root, "store")
	must(os.MkdirAll(filepath.Join(path, "f"), 0o755))
	vs := version.NewStoreVersionSet(path, table.NewCache(path, time.Minute), 2)
	must(vs.Recover())
	fv := vs.CreateFamilyVersion("f", 1)

	commit := func(source version.FamilyID, file table.FileNumber) {
		el := version.NewEditLog(1)
		el.Add(version.CreateNewReferenceFile("20240115", source, file))
		must(vs.CommitFamilyEditLog("f", el))
	}
	commit(11, 2) // rollup of source family 11 recorded
	old := fv.GetSnapshot() // a reader retains the version of this moment
	before := fmt.Sprint(old.GetCurrent().GetReferenceFiles("20240115"))
	commit(12, 4) // a later commit records the rollup of source family 12
	after := fmt.Sprint(old.GetCurrent().GetReferenceFiles("20240115"))
	cur := fv.GetSnapshot()
	fmt.Printf("retained version, before the later commit: %s\n", before)
	fmt.Printf("retained version, after  the later commit: %s\n", after)
	fmt.Printf("current  version                         : %v\n", cur.GetCurrent().GetReferenceFiles("20240115"))
	cur.Close()
	old.Close()
	if before != after {
		fmt.Println("FAIL: a commit changed what a retained (older) version reports")
		os.Exit(1)
	}
	fmt.Println("PASS: the retained version is unchanged")
}
