// F69 triage (C16): the protobuf converter accepts a simple field whose type is outside the enum and stores it with the
// flat UnSpecified type - the type the validation refuses when it is sent as such.  Exported API only.
// exit 1 = an invalid metric was accepted.
package main

import (
	"fmt"
	"os"

	"github.com/lindb/common/proto/gen/v1/flatMetricsV1"
	protoMetricsV1 "github.com/lindb/common/proto/gen/v1/linmetrics"

	"github.com/lindb/lindb/models"
	"github.com/lindb/lindb/series/metric"
)

func main() {
	bad := 0
	for _, tp := range []int32{0, 1, 2, 3, 4, 5, 6, 9} {
		cvt := metric.NewProtoConverter(models.NewDefaultLimits())
		var r metric.BrokerRow
		err := cvt.ConvertTo(&protoMetricsV1.Metric{Name: "u", Timestamp: 1,
			SimpleFields: []*protoMetricsV1.SimpleField{{Name: "f", Type: protoMetricsV1.SimpleFieldType(tp), Value: 1}}}, &r)
		stored := "-"
		if err == nil {
			m := r.Metric()
			var sf flatMetricsV1.SimpleField
			m.SimpleFields(&sf, 0)
			stored = sf.Type().String()
		}
		valid := tp >= 1 && tp <= 5
		fmt.Printf("type %d: accepted=%v stored as %s\n", tp, err == nil, stored)
		if (err == nil) != valid {
			bad++
		}
	}
	if bad > 0 {
		fmt.Println("FAIL: a field type outside the enum is accepted and stored as UnSpecified")
		os.Exit(1)
	}
	fmt.Println("PASS")
}
