// F68 triage (C16): a flat row that is refused for its length is not consumed; the decoder reads the next size prefix
// from the middle of it and the valid rows behind it are lost (or the whole request fails).
// Program by a seeding sub-agent (C16 observation O8, round 9), reduced.  Exported API only.
// exit 1 = a valid row of the batch was not accepted.
package main

import (
	"bytes"
	"fmt"
	"os"
	"strings"

	"github.com/lindb/common/proto/gen/v1/flatMetricsV1"
	commonseries "github.com/lindb/common/series"

	"github.com/lindb/lindb/ingestion/flat"
	"github.com/lindb/lindb/models"
)

func main() {
	var buf bytes.Buffer
	rb := commonseries.CreateRowBuilder()
	build := func(name string, tags, valLen int) {
		rb.Reset()
		rb.AddMetricName([]byte(name))
		_ = rb.AddSimpleField([]byte("f"), flatMetricsV1.SimpleFieldTypeLast, 1)
		for i := 0; i < tags; i++ {
			_ = rb.AddTag([]byte(fmt.Sprintf("t%02d", i)), []byte(strings.Repeat("x", valLen)))
		}
		data, err := rb.Build()
		if err != nil {
			panic(err)
		}
		fmt.Printf("row %s: %d bytes\n", name, len(data))
		buf.Write(data)
	}
	build("a", 2, 10)
	build("big", 20, 1000) // legal under the tag limits (32 tags x 1024 bytes), longer than the decoder's row limit
	build("b", 2, 10)
	build("c", 2, 10)
	batch, err := flat.ParseReader(&buf, nil, "ns", models.NewDefaultLimits())
	var names []string
	if err == nil {
		rows := batch.Rows()
		for i := range rows {
			m := rows[i].Metric()
			names = append(names, string(m.Name()))
		}
	}
	fmt.Printf("batch [a, big, b, c]: err = %v, accepted rows = %v\n", err, names)
	if strings.Join(names, ",") != "a,b,c" {
		fmt.Println("FAIL: the rows behind the refused one are valid and were sent, they are not stored")
		os.Exit(1)
	}
	fmt.Println("PASS")
}
