#!/usr/bin/env bash
# one-off triage harness for F68 (not a registered check). exit 0 = the valid rows around a refused row are accepted, 1 = they are lost
set -u
export GOFLAGS=-mod=mod GOPROXY=off GOSUMDB=off GOTOOLCHAIN=local
ROOT="${1:-/repo}"; HERE="$(cd "$(dirname "$0")" && pwd)"
DEMO_DIR="$ROOT/zz_triage_f68"
trap 'rm -rf "$DEMO_DIR"' EXIT
mkdir -p "$DEMO_DIR"; cp "$HERE/main.go" "$DEMO_DIR/"
cd "$ROOT" && go run ./zz_triage_f68/ 2>&1 | grep -v "INFO\|WARN" | tail -8
exit "${PIPESTATUS[0]}"
