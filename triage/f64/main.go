// F64 triage (C19): program by a seeding sub-agent (C19 observation O1, round 8), reduced to that observation.
// A pooled stage whose task the worker pool rejects (task deadline passed / stream cancelled before the stage is
// submitted) is never completed: no completion signal, no response.
// Everything below query.NewExecutePipeline / stage.NewShardScanStage / concurrent.NewPool is real lindb code.
//
// exit 1 if at least one of the violations is reproduced, exit 0 otherwise.
package main

import (
	"context"
	"fmt"
	"os"
	"time"

	commonmodels "github.com/lindb/common/models"

	"github.com/lindb/lindb/flow"
	"github.com/lindb/lindb/internal/concurrent"
	"github.com/lindb/lindb/internal/linmetric"
	"github.com/lindb/lindb/metrics"
	"github.com/lindb/lindb/models"
	"github.com/lindb/lindb/pkg/timeutil"
	protoCommonV1 "github.com/lindb/lindb/proto/gen/v1/common"
	"github.com/lindb/lindb/query"
	queryctx "github.com/lindb/lindb/query/context"
	"github.com/lindb/lindb/query/stage"
	trackerpkg "github.com/lindb/lindb/query/tracker"
	stmtpkg "github.com/lindb/lindb/sql/stmt"
	"github.com/lindb/lindb/tsdb"
)

type fakeDB struct {
	tsdb.Database
	pools *tsdb.ExecutorPool
}

func (db *fakeDB) ExecutorPool() *tsdb.ExecutorPool { return db.pools }

type fakeShard struct{ tsdb.Shard }

func (s *fakeShard) ShardID() models.ShardID { return 1 }
func (s *fakeShard) GetDataFamilies(timeutil.IntervalType, timeutil.TimeRange) []tsdb.DataFamily {
	return nil
}

func newPool(name string) concurrent.Pool {
	return concurrent.NewPool(name, 2, time.Second, metrics.NewConcurrentStatistics(name, linmetric.BrokerRegistry))
}

// o1: the deadline of the leaf task passes before the (pooled) shard scan stage is submitted:
// Pool.Submit drops the task silently, the stage stays pending for ever.
func o1() bool {
	taskCtx := flow.NewTaskContextWithTimeout(context.Background(), time.Minute)
	tracker := trackerpkg.NewStageTracker(taskCtx)
	db := &fakeDB{pools: &tsdb.ExecutorPool{Filtering: newPool("o1-f"), Grouping: newPool("o1-g"), Scanner: newPool("o1-s")}}
	q := &stmtpkg.Query{MetricName: "cpu", Interval: 10000, StorageInterval: 10000, IntervalRatio: 1}
	leafCtx := queryctx.NewLeafExecuteContext(taskCtx, tracker, q, &protoCommonV1.TaskRequest{RequestID: "o1"},
		nil, &models.Target{Indicator: "leaf", ShardIDs: []models.ShardID{1}}, []string{"root"}, db)
	shardCtx := flow.NewShardExecuteContext(leafCtx.StorageExecuteCtx)

	done := make(chan error, 2)
	pipeline := query.NewExecutePipeline(tracker, func(err error) { done <- err })

	taskCtx.Cancel() // == deadline exceeded / client gone
	pipeline.Execute(stage.NewShardScanStage(leafCtx, shardCtx, &fakeShard{}))
	select {
	case err := <-done:
		fmt.Printf("O1: pipeline completed, err=%v\n", err)
		return false
	case <-time.After(3 * time.Second):
		fmt.Printf("O1 REPRODUCED: the task of the shard scan stage was rejected by the pool, "+
			"the pipeline never signals completion(no response), stages: %s\n", states(pipeline.Stats()))
		return true
	}
}

func states(stages []*commonmodels.StageStats) string {
	rs := ""
	for _, s := range stages {
		rs += fmt.Sprintf("[%s: %s]", s.Identifier, s.State)
	}
	return rs
}

func main() {
	// Submit selects between the cancelled context and the (buffered, free) task queue: either case may win
	for i := 0; i < 20; i++ {
		if !o1() {
			continue
		}
		fmt.Println("FAIL")
		os.Exit(1)
	}
	fmt.Println("PASS")
}
