package main

// Shared harness of the C07 demos: a real tsdb engine + a real write-ahead-log
// (family log, consumer group, local replicator) in one directory, plus a tiny
// leaf query (metric name + tag -> series ids -> family data) used to check
// what is visible after recovery.

import (
	"bytes"
	"context"
	"fmt"
	"os"
	"path/filepath"
	"time"

	"github.com/lindb/common/pkg/ltoml"
	protoMetricsV1 "github.com/lindb/common/proto/gen/v1/linmetrics"
	"github.com/lindb/roaring"

	"github.com/lindb/lindb/config"
	"github.com/lindb/lindb/flow"
	"github.com/lindb/lindb/models"
	"github.com/lindb/lindb/pkg/compress"
	"github.com/lindb/lindb/pkg/encoding"
	"github.com/lindb/lindb/pkg/option"
	"github.com/lindb/lindb/pkg/timeutil"
	"github.com/lindb/lindb/replica"
	"github.com/lindb/lindb/series/field"
	"github.com/lindb/lindb/series/metric"
	"github.com/lindb/lindb/sql/stmt"
	"github.com/lindb/lindb/tsdb"
)

const (
	dbName     = "demo"
	nsName     = "ns"
	metricName = "cpu"
	fieldName  = "f1"
	tagKey     = "host"
	shardID    = models.ShardID(1)
	nodeID     = models.NodeID(1)
)

var interval = timeutil.Interval(10 * 1000)

type node struct {
	root       string
	engine     tsdb.Engine
	db         tsdb.Database
	shard      tsdb.Shard
	family     tsdb.DataFamily
	walMgr     replica.WriteAheadLogManager
	partition  replica.Partition
	familyTime int64
	pointTime  int64
}

func die(format string, args ...interface{}) {
	fmt.Printf("DEMO-ERROR: "+format+"\n", args...)
	os.Exit(2)
}

// readOrCreateTime keeps the data point timestamp stable across the two processes.
func readOrCreateTime(root string) int64 {
	p := filepath.Join(root, "point-time")
	if b, err := os.ReadFile(p); err == nil {
		var t int64
		_, _ = fmt.Sscanf(string(b), "%d", &t)
		return t
	}
	t := time.Now().UnixMilli()
	t -= t % 10000
	if err := os.WriteFile(p, []byte(fmt.Sprintf("%d", t)), 0o644); err != nil {
		die("write point-time: %v", err)
	}
	return t
}

// startNode opens (or re-opens) the storage node living in root.
// recoverWAL=true runs the write-ahead-log recovery exactly like a restarting storage node.
func startNode(root string, recoverWAL bool) *node {
	cfg := config.NewDefaultStorageBase()
	cfg.TSDB.Dir = filepath.Join(root, "data")
	cfg.WAL.Dir = filepath.Join(root, "wal")
	cfg.WAL.PageSize = ltoml.Size(1024 * 1024)
	cfg.WAL.RemoveTaskInterval = ltoml.Duration(time.Hour)
	config.SetGlobalStorageConfig(cfg)

	n := &node{root: root}
	n.pointTime = readOrCreateTime(root)
	n.familyTime = interval.Calculator().CalcFamilyTime(n.pointTime)

	engine, err := tsdb.NewEngine()
	if err != nil {
		die("new engine: %v", err)
	}
	n.engine = engine
	opt := &option.DatabaseOption{
		Intervals:    option.Intervals{{Interval: interval}},
		AutoCreateNS: true,
	}
	if err := engine.CreateShards(dbName, opt, shardID); err != nil {
		die("create shards: %v", err)
	}
	db, _ := engine.GetDatabase(dbName)
	n.db = db
	shard, ok := db.GetShard(shardID)
	if !ok {
		die("shard not found")
	}
	n.shard = shard

	n.walMgr = replica.NewWriteAheadLogManager(context.Background(), cfg.WAL, nodeID, engine, nil, nil)
	if recoverWAL {
		if err := n.walMgr.Recovery(); err != nil {
			die("wal recovery: %v", err)
		}
	}
	family, err := shard.GetOrCrateDataFamily(n.familyTime)
	if err != nil {
		die("get family: %v", err)
	}
	n.family = family
	return n
}

// openPartition builds the family log with its local replicator (leader == this node).
func (n *node) openPartition() {
	p, err := n.walMgr.GetOrCreateLog(dbName).GetOrCreatePartition(shardID, n.familyTime, nodeID)
	if err != nil {
		die("create partition: %v", err)
	}
	if err := p.BuildReplicaForLeader(nodeID, []models.NodeID{nodeID}); err != nil {
		die("build replica: %v", err)
	}
	n.partition = p
}

// message builds one write-ahead-log entry: a single row cpu{host=h<i>} f1(sum)=1.
func (n *node) message(i int) []byte {
	var row metric.BrokerRow
	converter := metric.NewProtoConverter(models.NewDefaultLimits())
	if err := converter.ConvertTo(&protoMetricsV1.Metric{
		Namespace: nsName,
		Name:      metricName,
		Timestamp: n.pointTime,
		Tags:      []*protoMetricsV1.KeyValue{{Key: tagKey, Value: fmt.Sprintf("h%d", i)}},
		SimpleFields: []*protoMetricsV1.SimpleField{
			{Name: fieldName, Type: protoMetricsV1.SimpleFieldType_DELTA_SUM, Value: 1},
		},
	}, &row); err != nil {
		die("convert row: %v", err)
	}
	buf := &bytes.Buffer{}
	if _, err := row.WriteTo(buf); err != nil {
		die("write row: %v", err)
	}
	w := compress.NewSnappyWriter()
	if _, err := w.Write(buf.Bytes()); err != nil {
		die("compress: %v", err)
	}
	if err := w.Close(); err != nil {
		die("compress close: %v", err)
	}
	return append([]byte(nil), w.Bytes()...)
}

func (n *node) appendLog(msg []byte) {
	if err := n.partition.WriteLog(msg); err != nil {
		die("write log: %v", err)
	}
}

// peer returns (appended, consumed, acked) of the local replicator's consumer group.
func (n *node) peer() (appended, consumed, acked int64, ok bool) {
	for _, st := range n.walMgr.GetReplicaState(dbName) {
		for _, r := range st.Replicators {
			return st.Append, r.Consume, r.ACK, true
		}
	}
	return 0, 0, 0, false
}

// waitDrained waits until the local replicator consumed the whole log and the last
// message was handed to the family.
func (n *node) waitDrained() {
	deadline := time.Now().Add(20 * time.Second)
	for time.Now().Before(deadline) {
		appended, consumed, _, ok := n.peer()
		if ok && consumed >= appended {
			time.Sleep(300 * time.Millisecond) // let the in-flight Replica() call finish
			return
		}
		time.Sleep(10 * time.Millisecond)
	}
	die("replicator did not drain the log in time")
}

// flushAll performs the flush job in the order of the flush checker: metadata -> shard index -> family.
func (n *node) flushAll() {
	if err := n.db.FlushMeta(); err != nil {
		die("flush meta: %v", err)
	}
	n.db.WaitFlushMetaCompleted()
	if err := n.shard.FlushIndex(); err != nil {
		die("flush index: %v", err)
	}
	n.shard.WaitFlushIndexCompleted()
	if err := n.family.Flush(); err != nil {
		die("flush family: %v", err)
	}
}

// query is a minimal leaf query: select sum(f1) from cpu where host='h<i>'.
// Returns found=false when the name/tag does not resolve or no data is found.
func (n *node) query(i int) (sum float64, found bool) {
	metaDB := n.db.MetaDB()
	metricID, err := metaDB.GetMetricID(nsName, metricName)
	if err != nil {
		return 0, false
	}
	schema, err := metaDB.GetSchema(metricID)
	if err != nil || schema == nil {
		return 0, false
	}
	tagMeta, ok := schema.TagKeys.Find(tagKey)
	if !ok {
		return 0, false
	}
	fm, ok := schema.Fields.Find(field.Name(fieldName))
	if !ok {
		return 0, false
	}
	tagValueIDs, err := metaDB.FindTagValueDsByExpr(tagMeta.ID, &stmt.EqualsExpr{Key: tagKey, Value: fmt.Sprintf("h%d", i)})
	if err != nil || tagValueIDs == nil || tagValueIDs.IsEmpty() {
		return 0, false
	}
	seriesIDs, err := n.shard.IndexDB().GetSeriesIDsByTagValueIDs(tagMeta.ID, tagValueIDs)
	if err != nil || seriesIDs == nil || seriesIDs.IsEmpty() {
		return 0, false
	}

	storageCtx := &flow.StorageExecuteContext{
		Query: &stmt.Query{
			Namespace:       nsName,
			MetricName:      metricName,
			TimeRange:       timeutil.TimeRange{Start: n.familyTime, End: n.familyTime + 3600*1000 - 1},
			Interval:        interval,
			StorageInterval: interval,
			IntervalRatio:   1,
		},
		MetricID: metricID,
		Schema:   schema,
		Fields:   field.Metas{fm},
	}
	shardCtx := flow.NewShardExecuteContext(storageCtx)
	shardCtx.SeriesIDsAfterFiltering = seriesIDs
	rss, err := n.family.Filter(shardCtx)
	if err != nil {
		return 0, false
	}
	for _, rs := range rss {
		match := roaring.FastAnd(seriesIDs, rs.SeriesIDs())
		highKeys := match.GetHighKeys()
		for idx, hk := range highKeys {
			loadCtx := &flow.DataLoadContext{
				ShardExecuteCtx:       shardCtx,
				SeriesIDHighKey:       hk,
				LowSeriesIDsContainer: match.GetContainerAtIndex(idx),
				Decoder:               encoding.GetTSDDecoder(),
			}
			loadCtx.DownSampling = func(slotRange timeutil.SlotRange, _ uint16, _ int, getter encoding.TSDValueGetter) {
				for s := int(slotRange.Start); s <= int(slotRange.End); s++ {
					if v, ok := getter.GetValue(uint16(s)); ok {
						sum += v
						found = true
					}
				}
			}
			loadCtx.Grouping()
			if loader := rs.Load(loadCtx); loader != nil {
				loader.Load(loadCtx)
			}
			encoding.ReleaseTSDDecoder(loadCtx.Decoder)
		}
		rs.Close()
	}
	return sum, found
}
