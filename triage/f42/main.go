package main

// F42 triage (C07 / C11): two memory databases of one shard created within the same fasttime tick (5 ms) share createdTime, the key
// under which each files its per-metric slot range in the shard-level index; flushing one deletes the entry of both.
// Program written by a seeding sub-agent (observation OBS-1, round 6); exit code added.
import (
	"bytes"
	"fmt"
	"os"
	"time"

	"github.com/lindb/common/pkg/fasttime"
	protoMetricsV1 "github.com/lindb/common/proto/gen/v1/linmetrics"

	"github.com/lindb/lindb/models"
	"github.com/lindb/lindb/pkg/compress"
	"github.com/lindb/lindb/replica"
	"github.com/lindb/lindb/series/metric"
	"github.com/lindb/lindb/tsdb"
)

func msgAt(ts int64, host string) []byte {
	var row metric.BrokerRow
	converter := metric.NewProtoConverter(models.NewDefaultLimits())
	if err := converter.ConvertTo(&protoMetricsV1.Metric{
		Namespace: nsName, Name: metricName, Timestamp: ts,
		Tags:         []*protoMetricsV1.KeyValue{{Key: tagKey, Value: host}},
		SimpleFields: []*protoMetricsV1.SimpleField{{Name: fieldName, Type: protoMetricsV1.SimpleFieldType_DELTA_SUM, Value: 1}},
	}, &row); err != nil {
		die("convert: %v", err)
	}
	buf := &bytes.Buffer{}
	_, _ = row.WriteTo(buf)
	w := compress.NewSnappyWriter()
	_, _ = w.Write(buf.Bytes())
	_ = w.Close()
	return append([]byte(nil), w.Bytes()...)
}

func openP(n *node, familyTime int64) replica.Partition {
	p, err := n.walMgr.GetOrCreateLog(dbName).GetOrCreatePartition(shardID, familyTime, nodeID)
	if err != nil {
		die("partition: %v", err)
	}
	if err := p.BuildReplicaForLeader(nodeID, []models.NodeID{nodeID}); err != nil {
		die("build: %v", err)
	}
	return p
}

var lost bool

func main() {
	root := os.Args[1]
	n := startNode(root, false)
	ftA := n.familyTime
	ftB := n.familyTime - 3600*1000
	pA := openP(n, ftA)
	pB := openP(n, ftB)
	famB, _ := n.shard.GetOrCrateDataFamily(ftB)
	// both family logs get their first entry back-to-back: both memory databases are created in the same tick
	mA := msgAt(n.pointTime, "h0")
	mB := msgAt(n.pointTime-3600*1000, "h0")
	// warm up: metric/series known, both families flushed once (no memory database left)
	_ = pA.WriteLog(msgAt(n.pointTime, "h9"))
	_ = pB.WriteLog(msgAt(n.pointTime-3600*1000, "h9"))
	time.Sleep(1 * time.Second)
	n.flushAll()
	if err := famB.Flush(); err != nil {
		die("flush B: %v", err)
	}
	// wait for the start of a fasttime tick, then append to both logs
	t0 := fasttime.UnixNano()
	for fasttime.UnixNano() == t0 {
	}
	_ = pA.WriteLog(mA)
	_ = pB.WriteLog(mB)
	time.Sleep(1 * time.Second)
	for _, st := range n.walMgr.GetReplicaState(dbName) {
		fmt.Printf("[obs] log family=%s append=%d %+v\n", st.FamilyTime, st.Append, st.Replicators)
	}
	q := func(tag string) {
		n2 := *n
		n2.family = famB
		n2.familyTime = ftB
		sum, found := n2.query(0)
		fmt.Printf("[obs] %s: family B (previous hour) cpu{host=h0}: found=%v sum=%v\n", tag, found, sum)
		if !found {
			lost = true
		}
	}
	fmt.Printf("[obs] memdb createdTime: A=%d B=%d\n", tsdb.MemDBCreatedTimeForDemo(n.family), tsdb.MemDBCreatedTimeForDemo(famB))
	q("before any flush")
	// flush job for family A only (B is not due yet)
	n.flushAll()
	q("after flush of family A")
	// later: flush job for family B
	_ = n.db.FlushMeta()
	n.db.WaitFlushMetaCompleted()
	_ = n.shard.FlushIndex()
	n.shard.WaitFlushIndexCompleted()
	if err := famB.Flush(); err != nil {
		die("flush B: %v", err)
	}
	snap := famB.Family().GetSnapshot()
	fmt.Printf("[obs] family B after its flush: stored sequences=%v files=%d\n", snap.GetCurrent().GetSequences(), len(snap.GetCurrent().GetAllFiles()))
	snap.Close()
	for _, st := range n.walMgr.GetReplicaState(dbName) {
		fmt.Printf("[obs] log family=%s append=%d %+v\n", st.FamilyTime, st.Append, st.Replicators)
	}
	q("after flush of family B")
	if lost {
		fmt.Println("FAIL: the row of family B was acknowledged but is neither in memory nor in a table")
		os.Exit(1)
	}
	fmt.Println("PASS")
	os.Exit(0)
}
