#!/usr/bin/env bash
# one-off triage harness for F42 (not a registered check); harness and scenario written by a seeding sub-agent (C07 observation OBS-1, round 6).
# exit 0 = the row stays visible and is flushed, exit 1 = acknowledged and lost
set -u
export GOFLAGS=-mod=mod GOPROXY=off GOSUMDB=off GOTOOLCHAIN=local
ROOT="${1:-/repo}"; HERE="$(cd "$(dirname "$0")" && pwd)"
DEMO_DIR="$ROOT/zz_triage_f42"; WORK="$(mktemp -d /tmp/f42-XXXXXX)"
cleanup() { rm -rf "$DEMO_DIR" "$WORK" "$ROOT/tsdb/zz_export_demo.go"; }
trap cleanup EXIT
mkdir -p "$DEMO_DIR"; cp "$HERE/main.go" "$HERE/harness.go" "$DEMO_DIR/"; cp "$HERE/zz_export_demo.go.txt" "$ROOT/tsdb/zz_export_demo.go"
(cd "$ROOT" && go build -o "$WORK/demo" ./zz_triage_f42/) || { echo "build failed"; exit 2; }
mkdir -p "$WORK/node"
(cd "$WORK" && timeout 120 "$WORK/demo" "$WORK/node") > "$WORK/run.log" 2>&1; rc=$?
grep -E '^\[obs\]|^PASS|^FAIL|^panic' "$WORK/run.log" | head -20
exit $rc
