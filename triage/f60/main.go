// F60 triage (C11): stress program written by a seeding sub-agent (C11 observation O-2, round 8).
package main

import (
	"fmt"
	"os"

	"github.com/lindb/lindb/series/field"
)

// O-E: leafReduce check-then-act: two data load stages(two families) may both see PendingDataLoadTasks==0
func main() {
	quietLogs()
	dir, _ := os.MkdirTemp("", "c11obs")
	defer os.RemoveAll(dir)
	base := BaseTime() - 2*hour
	h := Open(dir)
	defer h.Close()
	end := base + 3*hour - 1
	m := &Model{}
	for fam := int64(0); fam < 3; fam++ {
		for s := 0; s < 50; s++ {
			h.W(m, "oe", map[string]string{"host": fmt.Sprintf("h%d", s)}, base+fam*hour+int64(s%300)*intervalMs, Sum("f", float64(s+1)))
		}
	}
	want := m.Expect("oe", "f", field.Sum, "", base, end, 1)
	bad := 0
	n := 10000
	for i := 0; i < n; i++ {
		got, err := h.Query("select f from oe", base, end, 1)
		must(err)
		if d := Diff(want, got); len(d) > 0 {
			bad++
			if bad <= 3 {
				fmt.Println("run", i, "diffs", len(d), d[0])
			}
		}
	}
	fmt.Printf("O-E: %d of %d queries over 3 families differ from the model\n", bad, n)
	if bad > 0 {
		os.Exit(1)
	}
}
