package main

// Demo harness: a real tsdb.Engine (real shard, data families, memory databases, kv store, index) plus the
// real leaf task processor of the query package. Nothing of lindb is mocked; only the rpc stream which receives the
// leaf response is a stub that hands the response back to the demo.

import (
	"os"
	"bytes"
	"context"
	"fmt"
	"sort"
	"strings"
	"time"

	"github.com/lindb/common/pkg/encoding"
	"github.com/lindb/common/pkg/logger"
	protoMetricsV1 "github.com/lindb/common/proto/gen/v1/linmetrics"
	"google.golang.org/grpc"

	"github.com/lindb/lindb/config"
	"github.com/lindb/lindb/flow"
	"github.com/lindb/lindb/models"
	"github.com/lindb/lindb/pkg/option"
	"github.com/lindb/lindb/pkg/timeutil"
	protoCommonV1 "github.com/lindb/lindb/proto/gen/v1/common"
	"github.com/lindb/lindb/query"
	"github.com/lindb/lindb/series"
	"github.com/lindb/lindb/series/field"
	"github.com/lindb/lindb/series/metric"
	"github.com/lindb/lindb/sql"
	"github.com/lindb/lindb/sql/stmt"
	"github.com/lindb/lindb/tsdb"
)

const (
	dbName       = "demo"
	intervalMs   = int64(10 * 1000)
	hour         = int64(3600 * 1000)
	receiverName = "root-receiver"
)

// Harness wraps engine/shard for the demo.
type Harness struct {
	Dir    string
	Engine tsdb.Engine
	DB     tsdb.Database
	Shard  tsdb.Shard
	node   *models.StatelessNode
}

func quietLogs() {
	// keep the demo output readable: only errors of lindb are logged
	_ = logger.RunningAtomicLevel.UnmarshalText([]byte("error"))
}

// Open opens(or re-opens) the engine on dir.
func Open(dir string) *Harness {
	cfg := config.NewDefaultStorageBase()
	cfg.TSDB.Dir = dir
	config.SetGlobalStorageConfig(cfg)
	engine, err := tsdb.NewEngine()
	must(err)
	h := &Harness{Dir: dir, Engine: engine, node: &models.StatelessNode{HostIP: "127.0.0.1", GRPCPort: 2891}}
	if db, ok := engine.GetDatabase(dbName); ok {
		h.DB = db
	} else {
		opt := &option.DatabaseOption{
			Intervals:    option.Intervals{{Interval: timeutil.Interval(intervalMs), Retention: timeutil.Interval(30 * 24 * hour)}},
			AutoCreateNS: true,
		}
		must(engine.CreateShards(dbName, opt, models.ShardID(1)))
		db, ok := engine.GetDatabase(dbName)
		if !ok {
			panic("database not found")
		}
		h.DB = db
	}
	shard, ok := h.DB.GetShard(models.ShardID(1))
	if !ok {
		panic("shard not found")
	}
	h.Shard = shard
	return h
}

func (h *Harness) Close() {
	h.Engine.Close()
}

// Point is a point of the naive model.
type Point struct {
	Metric string
	Tags   map[string]string
	Field  string
	Type   protoMetricsV1.SimpleFieldType
	Ts     int64
	Value  float64
}

// Rows builds storage rows for one metric/series with several fields at one timestamp.
func Rows(name string, tags map[string]string, ts int64, fields ...*protoMetricsV1.SimpleField) []*metric.StorageRow {
	m := &protoMetricsV1.Metric{Name: name, Timestamp: ts, SimpleFields: fields}
	keys := make([]string, 0, len(tags))
	for k := range tags {
		keys = append(keys, k)
	}
	sort.Strings(keys)
	for _, k := range keys {
		m.Tags = append(m.Tags, &protoMetricsV1.KeyValue{Key: k, Value: tags[k]})
	}
	ml := protoMetricsV1.MetricList{Metrics: []*protoMetricsV1.Metric{m}}
	var buf bytes.Buffer
	converter := metric.NewProtoConverter(models.NewDefaultLimits())
	if _, err := converter.MarshalProtoMetricListV1To(ml, &buf); err != nil {
		panic(err)
	}
	var br metric.StorageBatchRows
	br.UnmarshalRows(buf.Bytes())
	return br.Rows()
}

func Sum(name string, v float64) *protoMetricsV1.SimpleField {
	return &protoMetricsV1.SimpleField{Name: name, Value: v, Type: protoMetricsV1.SimpleFieldType_DELTA_SUM}
}

func Last(name string, v float64) *protoMetricsV1.SimpleField {
	return &protoMetricsV1.SimpleField{Name: name, Value: v, Type: protoMetricsV1.SimpleFieldType_LAST}
}

// Family returns the data family of the timestamp.
func (h *Harness) Family(ts int64) tsdb.DataFamily {
	familyTime := timeutil.Interval(intervalMs).Calculator().CalcFamilyTime(ts)
	f, err := h.Shard.GetOrCrateDataFamily(familyTime)
	must(err)
	return f
}

// Write writes the fields of one series at ts through the real write path of the data family.
func (h *Harness) Write(name string, tags map[string]string, ts int64, fields ...*protoMetricsV1.SimpleField) {
	must(h.Family(ts).WriteRows(Rows(name, tags, ts, fields...)))
}

// Result is: group tags => field name => agg type => timestamp => value
type Result map[string]map[string]map[field.AggType]map[int64]float64

func (r Result) String() string {
	var lines []string
	for tags, fields := range r {
		for f, aggs := range fields {
			for agg, vals := range aggs {
				var tss []int64
				for ts := range vals {
					tss = append(tss, ts)
				}
				sort.Slice(tss, func(i, j int) bool { return tss[i] < tss[j] })
				var sb strings.Builder
				for _, ts := range tss {
					sb.WriteString(fmt.Sprintf(" %d=%v", ts, vals[ts]))
				}
				lines = append(lines, fmt.Sprintf("  [%s] %s(agg %d):%s", tags, f, agg, sb.String()))
			}
		}
	}
	sort.Strings(lines)
	return strings.Join(lines, "\n")
}

type stubStream struct {
	grpc.ServerStream
	ch chan *protoCommonV1.TaskResponse
}

func (s *stubStream) Send(resp *protoCommonV1.TaskResponse) error { s.ch <- resp; return nil }
func (s *stubStream) Recv() (*protoCommonV1.TaskRequest, error)   { return nil, nil }
func (s *stubStream) Context() context.Context                    { return context.TODO() }

type stubFactory struct{ stream *stubStream }

func (f *stubFactory) GetStream(string) protoCommonV1.TaskService_HandleServer { return f.stream }
func (f *stubFactory) Register(string, protoCommonV1.TaskService_HandleServer) int64 {
	return 0
}
func (f *stubFactory) Deregister(int64, string) bool { return true }
func (f *stubFactory) Nodes() []models.Node          { return nil }

var reqSeq int

// Query runs `ql` (without time condition) over [start,end] with the query interval = ratio * storage interval
// through the real leaf task processor and decodes the TimeSeriesList it sends to the receiver.
func (h *Harness) Query(ql string, start, end int64, ratio int) (Result, error) {
	st, err := sql.Parse(ql)
	if err != nil {
		return nil, err
	}
	q := st.(*stmt.Query)
	// same values as the root planner calculates(query/context/utils.go)
	q.TimeRange = timeutil.TimeRange{Start: timeutil.Truncate(start, intervalMs), End: timeutil.Truncate(end, intervalMs)}
	q.StorageInterval = timeutil.Interval(intervalMs)
	q.Interval = timeutil.Interval(intervalMs * int64(ratio))
	q.IntervalRatio = ratio
	q.Explain = os.Getenv("DEMO_DEBUG") != ""

	stream := &stubStream{ch: make(chan *protoCommonV1.TaskResponse, 4)}
	processor := query.NewLeafTaskProcessor(h.node, h.Engine, &stubFactory{stream: stream})
	plan := &models.PhysicalPlan{
		Database:  dbName,
		Targets:   []*models.Target{{Indicator: h.node.Indicator(), ShardIDs: []models.ShardID{1}}},
		Receivers: []string{receiverName},
	}
	payload, _ := q.MarshalJSON()
	reqSeq++
	req := &protoCommonV1.TaskRequest{
		RequestID:    fmt.Sprintf("demo-%d", reqSeq),
		RequestType:  protoCommonV1.RequestType_Data,
		PhysicalPlan: encoding.JSONMarshal(plan),
		Payload:      payload,
	}
	taskCtx := flow.NewTaskContextWithTimeout(context.Background(), 30*time.Second)
	if err := processor.Process(taskCtx, stream, req); err != nil {
		return nil, err
	}
	var resp *protoCommonV1.TaskResponse
	select {
	case resp = <-stream.ch:
	case <-time.After(40 * time.Second):
		return nil, fmt.Errorf("query timeout")
	}
	if resp.ErrMsg != "" {
		return nil, fmt.Errorf("leaf error: %s", resp.ErrMsg)
	}
	if os.Getenv("DEMO_DEBUG") != "" {
		fmt.Println("STATS:", string(resp.Stats), "payload", len(resp.Payload))
	}
	tsList := &protoCommonV1.TimeSeriesList{}
	if err := tsList.Unmarshal(resp.Payload); err != nil {
		return nil, err
	}
	rs := make(Result)
	for _, ts := range tsList.TimeSeriesList {
		fields, ok := rs[ts.Tags]
		if !ok {
			fields = make(map[string]map[field.AggType]map[int64]float64)
			rs[ts.Tags] = fields
		}
		for name, data := range ts.Fields {
			aggs, ok := fields[name]
			if !ok {
				aggs = make(map[field.AggType]map[int64]float64)
				fields[name] = aggs
			}
			it := series.NewIterator(field.Name(name), data)
			for it.HasNext() {
				startTime, fIt := it.Next()
				if fIt == nil {
					continue
				}
				for fIt.HasNext() {
					pIt := fIt.Next()
					vals, ok := aggs[pIt.AggType()]
					if !ok {
						vals = make(map[int64]float64)
						aggs[pIt.AggType()] = vals
					}
					for pIt.HasNext() {
						slot, v := pIt.Next()
						t := startTime + int64(slot)*tsList.Interval
						if old, ok := vals[t]; ok {
							// several segments of one response for the same timestamp: merge like the root does
							vals[t] = pIt.AggType().Aggregate(old, v)
						} else {
							vals[t] = v
						}
					}
				}
			}
		}
	}
	return rs, nil
}

// Equal compares two results, returns the differences.
func Diff(want, got Result) []string {
	var diffs []string
	keys := map[string]struct{}{}
	flat := func(r Result) map[string]float64 {
		m := make(map[string]float64)
		for tags, fields := range r {
			for f, aggs := range fields {
				for agg, vals := range aggs {
					for ts, v := range vals {
						k := fmt.Sprintf("[%s] %s agg=%d ts=%d", tags, f, agg, ts)
						m[k] = v
						keys[k] = struct{}{}
					}
				}
			}
		}
		return m
	}
	w, g := flat(want), flat(got)
	var ks []string
	for k := range keys {
		ks = append(ks, k)
	}
	sort.Strings(ks)
	for _, k := range ks {
		wv, wok := w[k]
		gv, gok := g[k]
		switch {
		case wok && !gok:
			diffs = append(diffs, fmt.Sprintf("%s: want %v, got nothing", k, wv))
		case !wok && gok:
			diffs = append(diffs, fmt.Sprintf("%s: want nothing, got %v", k, gv))
		case wv != gv:
			diffs = append(diffs, fmt.Sprintf("%s: want %v, got %v", k, wv, gv))
		}
	}
	return diffs
}

func must(err error) {
	if err != nil {
		panic(err)
	}
}

// Model is the naive reference: stores every point.
type Model struct{ pts []Point }

func (m *Model) Add(p Point) { m.pts = append(m.pts, p) }

func typeAgg(t protoMetricsV1.SimpleFieldType) field.AggType {
	switch t {
	case protoMetricsV1.SimpleFieldType_DELTA_SUM:
		return field.Sum
	case protoMetricsV1.SimpleFieldType_LAST:
		return field.Last
	case protoMetricsV1.SimpleFieldType_FIRST:
		return field.First
	case protoMetricsV1.SimpleFieldType_Min:
		return field.Min
	case protoMetricsV1.SimpleFieldType_Max:
		return field.Max
	}
	panic("type")
}

// Expect computes what a query of one field returns: points of one series and one storage slot are combined by the
// field's type, then the slots of a query bucket and the series of a group are combined by agg(function of the query).
func (m *Model) Expect(metricName, fieldName string, agg field.AggType, groupBy string, start, end int64, ratio int) Result {
	start = timeutil.Truncate(start, intervalMs)
	end = timeutil.Truncate(end, intervalMs)
	type sk struct {
		series string
		slot   int64
	}
	slots := make(map[sk]float64)
	group := make(map[string]string)
	var order []sk
	for _, p := range m.pts {
		if p.Metric != metricName || p.Field != fieldName {
			continue
		}
		var kv []string
		for k, v := range p.Tags {
			kv = append(kv, k+"="+v)
		}
		sort.Strings(kv)
		k := sk{series: strings.Join(kv, ","), slot: timeutil.Truncate(p.Ts, intervalMs)}
		if groupBy != "" {
			g, ok := p.Tags[groupBy]
			if !ok {
				continue
			}
			group[k.series] = g
		} else {
			group[k.series] = ""
		}
		if old, ok := slots[k]; ok {
			slots[k] = typeAgg(p.Type).Aggregate(old, p.Value)
		} else {
			slots[k] = p.Value
			order = append(order, k)
		}
	}
	// deterministic order: by slot then series(first/last over slots of a bucket follow time order)
	sort.Slice(order, func(i, j int) bool {
		if order[i].slot != order[j].slot {
			return order[i].slot < order[j].slot
		}
		return order[i].series < order[j].series
	})
	rs := make(Result)
	qInterval := intervalMs * int64(ratio)
	for _, k := range order {
		if k.slot < start || k.slot > end {
			continue
		}
		bucket := start + (k.slot-start)/qInterval*qInterval
		g := group[k.series]
		if rs[g] == nil {
			rs[g] = map[string]map[field.AggType]map[int64]float64{}
		}
		if rs[g][fieldName] == nil {
			rs[g][fieldName] = map[field.AggType]map[int64]float64{}
		}
		if rs[g][fieldName][agg] == nil {
			rs[g][fieldName][agg] = map[int64]float64{}
		}
		vals := rs[g][fieldName][agg]
		if old, ok := vals[bucket]; ok {
			vals[bucket] = agg.Aggregate(old, slots[k])
		} else {
			vals[bucket] = slots[k]
		}
	}
	return rs
}

// W writes a point of one field through lindb and records it in the model.
func (h *Harness) W(m *Model, name string, tags map[string]string, ts int64, f *protoMetricsV1.SimpleField) {
	h.Write(name, tags, ts, f)
	m.Add(Point{Metric: name, Tags: tags, Field: f.Name, Type: f.Type, Ts: ts, Value: f.Value})
}

// Merge merges several single-field results.
func Merge(rs ...Result) Result {
	out := make(Result)
	for _, r := range rs {
		for tags, fields := range r {
			if out[tags] == nil {
				out[tags] = map[string]map[field.AggType]map[int64]float64{}
			}
			for f, aggs := range fields {
				out[tags][f] = aggs
			}
		}
	}
	return out
}

// BaseTime returns the start of the data family which is 3 hours before now(inside retention, not written by anything else).
func BaseTime() int64 {
	return (time.Now().UnixMilli() - 3*hour) / hour * hour
}

func nil2ctx() context.Context { return context.Background() }
