#!/bin/sh
# one-off triage harness for F60 (not a registered check); stress: 10000 queries over 3 families. exit != 0 when values are doubled
set -u
ROOT=$(cd "${1:-/repo}" && pwd); HERE=$(cd "$(dirname "$0")" && pwd)
export GOFLAGS=-mod=mod GOPROXY=off GOSUMDB=off GOTOOLCHAIN=local
trap 'rm -rf "$ROOT/zz_triage_f60"' EXIT
mkdir -p "$ROOT/zz_triage_f60" && cp "$HERE"/*.go "$ROOT/zz_triage_f60"/ || exit 99
cd "$ROOT" && go run ./zz_triage_f60 > /tmp/f60.log 2>&1; rc=$?; grep -v "INFO\|WARN" /tmp/f60.log | tail -4; rm -f /tmp/f60.log; exit $rc
