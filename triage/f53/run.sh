#!/usr/bin/env bash
# one-off triage harness for F53 (not a registered check); programs written by a seeding sub-agent (C09 observations, round 8).
# usage: run.sh [repo-root] [o1|o2|o3]  (F53 = o1). exit 1 = the violation manifests
set -u
ROOT=$(cd "${1:-/repo}" && pwd); WHICH="${2:-o1}"
HERE=$(cd "$(dirname "$0")" && pwd)
export GOFLAGS=-mod=mod GOPROXY=off GOSUMDB=off GOTOOLCHAIN=local
cleanup() { rm -f "$ROOT/index/zz_export_demo.go"; rm -rf "$ROOT/zz_triage_f53"; }
trap cleanup EXIT
mkdir -p "$ROOT/zz_triage_f53"
cp "$HERE/zz_export_demo.go.txt" "$ROOT/index/zz_export_demo.go"
cp "$HERE/main.go" "$ROOT/zz_triage_f53/main.go"
cd "$ROOT" && go run ./zz_triage_f53 "$WHICH" 2>&1 | grep -v "INFO\|WARN" | tail -12
exit "${PIPESTATUS[0]}"
