// Reproductions of C09 observations on the UNCHANGED tree. usage: go run ./zz_demo/c09obs <o1|o2|o3>
package main

import (
	"bytes"
	"fmt"
	"os"
	"path/filepath"
	"sync/atomic"
	"time"

	protoMetricsV1 "github.com/lindb/common/proto/gen/v1/linmetrics"

	"github.com/lindb/lindb/index"
	"github.com/lindb/lindb/models"
	"github.com/lindb/lindb/series/field"
	"github.com/lindb/lindb/series/metric"
)

func row(name, key, value string) *metric.StorageRow {
	m := &protoMetricsV1.Metric{
		Name:      name,
		Namespace: "ns",
		Tags:      []*protoMetricsV1.KeyValue{{Key: key, Value: value}},
		SimpleFields: []*protoMetricsV1.SimpleField{
			{Name: "f1", Type: protoMetricsV1.SimpleFieldType_DELTA_SUM, Value: 10},
		},
	}
	var ml protoMetricsV1.MetricList
	ml.Metrics = append(ml.Metrics, m)
	var buf bytes.Buffer
	converter := metric.NewProtoConverter(models.NewDefaultLimits())
	if _, err := converter.MarshalProtoMetricListV1To(ml, &buf); err != nil {
		panic(err)
	}
	var br metric.StorageBatchRows
	br.UnmarshalRows(buf.Bytes())
	return br.Rows()[0]
}

func fatal(format string, args ...any) {
	fmt.Printf("DEMO-ERROR: "+format+"\n", args...)
	os.Exit(3)
}

func must[T any](v T, err error) T {
	if err != nil {
		fatal("%v", err)
	}
	return v
}

func main() {
	if len(os.Args) != 2 {
		fatal("usage: c09obs <o1|o2|o3>")
	}
	dir, err := os.MkdirTemp("", "c09obs")
	if err != nil {
		fatal("%v", err)
	}
	var code int
	switch os.Args[1] {
	case "o1":
		code = o1(dir)
	case "o2":
		code = o2(dir)
	case "o3":
		code = o3(dir)
	default:
		fatal("unknown reproduction")
	}
	_ = os.RemoveAll(dir)
	os.Exit(code)
}

// o1: metricSchemaStore.GetSchema adds the schema it loaded from the kv store to the schema cache without checking
// that no flush completed(and purged the cache) in the meantime: a stale schema stays in the cache and is then
// registered by getOrCreateSchemaUnderLock as THE schema of the metric.
func o1(dir string) int {
	metaDB := must(index.NewMetricMetaDatabase("demo", filepath.Join(dir, "meta")))
	var armed atomic.Bool
	loaded := make(chan struct{})
	resume := make(chan struct{})
	index.ObsHookSchemaSnapshotClose(metaDB, func() {
		if !armed.CompareAndSwap(true, false) {
			return
		}
		close(loaded)
		<-resume
	})
	metricID := must(metaDB.GenMetricID([]byte("ns"), []byte("cpu")))
	f := func(name string) field.Meta { return field.Meta{Name: field.Name(name), Type: field.SumField} }

	id0 := must(metaDB.GenFieldID(metricID, f("f0")))
	metaDB.PrepareFlush()
	if err := metaDB.Flush(); err != nil {
		fatal("flush: %v", err)
	}
	// a query reads the schema(metadata lookup): loads [f0] from kv store ... and is descheduled before cache.Add
	armed.Store(true)
	queryDone := make(chan struct{})
	go func() {
		_, _ = metaDB.GetSchema(metricID)
		close(queryDone)
	}()
	select {
	case <-loaded:
	case <-time.After(30 * time.Second):
		fatal("query did not load the schema")
	}
	// writer creates f1, flush persists it and purges the schema cache
	id1 := must(metaDB.GenFieldID(metricID, f("f1")))
	metaDB.PrepareFlush()
	if err := metaDB.Flush(); err != nil {
		fatal("flush: %v", err)
	}
	// query goes on: puts the stale schema [f0] into the cache
	close(resume)
	<-queryDone
	// writer creates f2
	id2 := must(metaDB.GenFieldID(metricID, f("f2")))
	id1again := must(metaDB.GenFieldID(metricID, f("f1")))
	fmt.Printf("f0 => %d, f1 => %d, f2 => %d, f1 again => %d\n", id0, id1, id2, id1again)
	_ = metaDB.Close()
	if id2 == id1 || id1again != id1 {
		fmt.Println("VIOLATION(C09): two field names of one metric share an id / a field name changed its id")
		return 1
	}
	fmt.Println("OK")
	return 0
}

// o2: ids which the shard index worker creates in the metadata database after the metadata flush swapped its stores
// are persisted by the index flush of the same flush job(forward/inverted index), but neither in the dictionaries
// nor in the sequence file. After a crash they are handed out again.
func o2(dir string) int {
	metaDir, indexDir := filepath.Join(dir, "meta"), filepath.Join(dir, "index")
	metaDB := must(index.NewMetricMetaDatabase("demo", metaDir))
	db := must(index.NewMetricIndexDatabase(indexDir, metaDB))
	cpu := must(metaDB.GenMetricID([]byte("ns"), []byte("cpu")))

	// flush job of tsdb(data_flush_checker.doFlush): 1. FlushMeta (PrepareFlush + Flush, waits for completion)
	metaDB.PrepareFlush()
	if err := metaDB.Flush(); err != nil {
		fatal("flush: %v", err)
	}
	// meanwhile the index worker of a shard handles a row with a new series: new tag key/tag value ids
	seriesID := must(db.GenSeriesID(cpu, row("cpu", "host", "a")))
	schema := must(metaDB.GetSchema(cpu))
	hostKeyID := schema.TagKeys[0].ID
	// 2. FlushIndex of the shard (PrepareFlush + Flush)
	db.PrepareFlush()
	if err := db.Flush(); err != nil {
		fatal("flush: %v", err)
	}
	// crash: nothing else reaches the disk(Close of both databases does not flush/sync anything)
	_ = db.Close()
	_ = metaDB.Close()

	metaDB = must(index.NewMetricMetaDatabase("demo", metaDir))
	db = must(index.NewMetricIndexDatabase(indexDir, metaDB))
	mem := must(metaDB.GenMetricID([]byte("ns"), []byte("mem")))
	regionKeyID := must(metaDB.GenTagKeyID(mem, []byte("region")))
	usedBy := must(db.GetSeriesIDsForTag(regionKeyID))
	fmt.Printf("before crash: cpu(metric %d) tag key host => %d, series %d indexed under it\n", cpu, hostKeyID, seriesID)
	fmt.Printf("after recovery: mem(metric %d) NEW tag key region => %d, recovered forward index already has series %v under this tag key id\n",
		mem, regionKeyID, usedBy.ToArray())
	_ = db.Close()
	_ = metaDB.Close()
	if regionKeyID == hostKeyID || !usedBy.IsEmpty() {
		fmt.Println("VIOLATION(C09): a name created after recovery received an id which recovered index entries use for another name")
		return 1
	}
	fmt.Println("OK")
	return 0
}

// o3: createSeriesID swallows the error of the postings lookup and returns series id 0.
func o3(dir string) int {
	metaDir, indexDir := filepath.Join(dir, "meta"), filepath.Join(dir, "index")
	metaDB := must(index.NewMetricMetaDatabase("demo", metaDir))
	db := must(index.NewMetricIndexDatabase(indexDir, metaDB))
	cpu := must(metaDB.GenMetricID([]byte("ns"), []byte("cpu")))
	idA := must(db.GenSeriesID(cpu, row("cpu", "host", "a")))
	idB := must(db.GenSeriesID(cpu, row("cpu", "host", "b")))
	metaDB.PrepareFlush()
	if err := metaDB.Flush(); err != nil {
		fatal("flush: %v", err)
	}
	db.PrepareFlush()
	if err := db.Flush(); err != nil {
		fatal("flush: %v", err)
	}
	_ = db.Close()
	_ = metaDB.Close()
	// clean restart(series sequence cache is empty), first new series of the metric, transient read error
	metaDB = must(index.NewMetricMetaDatabase("demo", metaDir))
	db = must(index.NewMetricIndexDatabase(indexDir, metaDB))
	index.ObsFailPostingsReadOnce()
	idC, err := db.GenSeriesID(cpu, row("cpu", "host", "c"))
	fmt.Printf("host=a => %d, host=b => %d, after restart + one failing postings read: host=c => %d (err: %v)\n", idA, idB, idC, err)
	_ = db.Close()
	_ = metaDB.Close()
	if err == nil && (idC == idA || idC == idB) {
		fmt.Println("VIOLATION(C09): a new series received the id of an existing series, no error reported")
		return 1
	}
	fmt.Println("OK")
	return 0
}
