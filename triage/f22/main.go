package main

// F22 triage (C19 / C12): baseTaskContext.Complete(err) stores err unconditionally.  The root pipeline calls
// Complete(nil) when planning and sending went well; the response handlers store the error of a failed leaf and close
// doneCh.  Both run on their own goroutines, the waiting request reads ctx.err only after it was woken up:
// "leaf answers with an error -> pipeline callback Complete(nil) -> waiter reads" returns SUCCESS for a failed request.
// The harness replays that order of the three events on the real context.
import (
	"context"
	"fmt"
	"os"

	protoCommonV1 "github.com/lindb/lindb/proto/gen/v1/common"

	"github.com/lindb/lindb/flow"
	"github.com/lindb/lindb/models"
	queryctx "github.com/lindb/lindb/query/context"
	"github.com/lindb/lindb/query/tracker"
	stmtpkg "github.com/lindb/lindb/sql/stmt"
)

type choose struct{}

func (choose) Choose(database string, _ int) ([]*models.PhysicalPlan, error) {
	return []*models.PhysicalPlan{{Database: database, Targets: []*models.Target{{Indicator: "leaf-1"}, {Indicator: "leaf-2"}}}}, nil
}

func main() {
	bg := context.Background()
	ctx := queryctx.NewMetadataContext(&queryctx.MetadataDeps{
		Ctx: bg, Request: &models.Request{RequestID: "r1"}, Database: "db",
		Statement:   &stmtpkg.MetricMetadata{Type: stmtpkg.Metric},
		CurrentNode: models.StatelessNode{HostIP: "1.1.1.1", GRPCPort: 9000},
		Choose:      choose{},
	})
	ctx.SetTracker(tracker.NewStageTracker(flow.NewTaskContextWithTimeout(bg, 0)))
	if err := ctx.MakePlan(); err != nil { // two targets expected
		panic(err)
	}
	// event 1 (response handler goroutine): leaf-1 answers with a payload that can not be decoded -> error recorded, task closed
	ctx.HandleResponse(&protoCommonV1.TaskResponse{Completed: true, Payload: []byte("{not json")}, "leaf-1")
	// event 2 (pipeline goroutine): the root pipeline (plan + send) finished without error
	ctx.Complete(nil)
	// event 3 (request goroutine): woken up by doneCh, reads the outcome
	res, err := ctx.WaitResponse()
	fmt.Printf("WaitResponse -> result=%v err=%v\n", res, err)
	if err == nil {
		fmt.Println("FAIL: a leaf failed, but the request reports success (the recorded error was overwritten by Complete(nil))")
		os.Exit(1)
	}
	fmt.Println("PASS: the request reports the leaf's failure")
}
