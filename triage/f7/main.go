package main

import (
	"fmt"
	"os"

	"github.com/lindb/lindb/pkg/queue"
)

func main() {
	dir, _ := os.MkdirTemp("", "f7")
	defer os.RemoveAll(dir)
	fq, err := queue.NewFanOutQueue(dir, 0)
	if err != nil {
		panic(err)
	}
	for i := 0; i < 20; i++ {
		if err := fq.Queue().Put([]byte(fmt.Sprintf("msg-%d", i))); err != nil {
			panic(err)
		}
	}
	a, _ := fq.GetOrCreateConsumerGroup("A")
	b, _ := fq.GetOrCreateConsumerGroup("B")
	for i := 0; i < 6; i++ {
		a.Consume()
	}
	a.Ack(5)
	fq.StopConsumerGroup("A")
	for i := 0; i < 15; i++ {
		b.Consume()
	}
	b.Ack(14)
	fq.Sync()
	fmt.Println("queue ack after sync:", fq.Queue().AcknowledgedSeq())
	// re-create A (same as reopen: its directory still exists)
	a2, _ := fq.GetOrCreateConsumerGroup("A")
	fmt.Printf("A after re-create: consumed=%d ack=%d appended=%d  (ack<=consumed? %v)\n",
		a2.ConsumedSeq(), a2.AcknowledgedSeq(), fq.Queue().AppendedSeq(), a2.AcknowledgedSeq() <= a2.ConsumedSeq())
	fq.Close()
	fq2, err := queue.NewFanOutQueue(dir, 0)
	if err != nil {
		panic(err)
	}
	a3, _ := fq2.GetOrCreateConsumerGroup("A")
	fmt.Printf("A after reopen:    consumed=%d ack=%d  (ack<=consumed? %v)\n", a3.ConsumedSeq(), a3.AcknowledgedSeq(), a3.AcknowledgedSeq() <= a3.ConsumedSeq())
	s := a3.Consume()
	_, gerr := fq2.Queue().Get(s)
	fmt.Println("A consumes seq", s, "-> Get error:", gerr)
	fq2.Close()
}
