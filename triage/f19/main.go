package main

// F19 / F20 triage (C10): tag-value lookups by regex and like must select the same values whether the dictionary
// entries are still in memory or already flushed.
//  F19: the in-memory lookup applies rp.Match (an UNANCHORED search) to every key; the persisted lookup
//       (TrieBucket.FindValuesByRegexp) walks only the keys that START with rp.LiteralPrefix() — a prefix of every
//       MATCH, not of every matching KEY — so a key matching in the middle is selected before the flush and not after.
//  F20: like '*' slices the pattern [1:len-1] = [1:0] and panics.
import (
	"fmt"
	"os"
	"path/filepath"
	"sort"

	"github.com/lindb/lindb/index"
	"github.com/lindb/lindb/series/tag"
	"github.com/lindb/lindb/sql/stmt"
)

func must(err error) {
	if err != nil {
		panic(err)
	}
}

func main() {
	dir, _ := os.MkdirTemp("", "f19-")
	defer os.RemoveAll(dir)
	metaDB, err := index.NewMetricMetaDatabase("demo", filepath.Join(dir, "meta"))
	must(err)
	metricID, err := metaDB.GenMetricID([]byte("ns"), []byte("cpu"))
	must(err)
	hostKey, err := metaDB.GenTagKeyID(metricID, []byte("host"))
	must(err)
	ids := map[uint32]string{}
	for _, v := range []string{"e1", "e2", "he1", "node-e7", "x"} {
		id, err := metaDB.GenTagValueID(hostKey, []byte(v))
		must(err)
		ids[id] = v
	}
	find := func(e stmt.TagFilter) (out []string, err error) {
		defer func() {
			if r := recover(); r != nil {
				err = fmt.Errorf("PANIC: %v", r)
			}
		}()
		bm, err := metaDB.FindTagValueDsByExpr(tag.KeyID(hostKey), e)
		if err != nil {
			return nil, err
		}
		for _, id := range bm.ToArray() {
			out = append(out, ids[id])
		}
		sort.Strings(out)
		return out, nil
	}
	bad := 0
	type res struct {
		out []string
		err error
	}
	qs := []struct {
		name string
		e    stmt.TagFilter
	}{
		{"host =~ 'e[0-9]'", &stmt.RegexExpr{Key: "host", Regexp: "e[0-9]"}},
		{"host =~ '^e[0-9]'", &stmt.RegexExpr{Key: "host", Regexp: "^e[0-9]"}},
		{"host like '*'", &stmt.LikeExpr{Key: "host", Value: "*"}},
		{"host like '*e*'", &stmt.LikeExpr{Key: "host", Value: "*e*"}},
	}
	mem := map[string]res{}
	for _, q := range qs {
		o, err := find(q.e)
		mem[q.name] = res{o, err}
		fmt.Printf("in memory   %-20s -> %v err=%v\n", q.name, o, err)
		if err != nil {
			bad++
		}
	}
	metaDB.PrepareFlush()
	must(metaDB.Flush())
	for _, q := range qs {
		o, err := find(q.e)
		same := fmt.Sprint(o) == fmt.Sprint(mem[q.name].out) && err == nil
		fmt.Printf("after flush %-20s -> %v err=%v %s\n", q.name, o, err, map[bool]string{true: "", false: "  <-- differs from the in-memory answer"}[same])
		if !same {
			bad++
		}
	}
	if bad > 0 {
		fmt.Println("FAIL")
		os.Exit(1)
	}
	fmt.Println("PASS: regex / like select the same tag values before and after the flush, and no pattern panics")
}
