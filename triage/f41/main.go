package main

// F41 triage (C17): ORDER BY items without an expression (a duration, * or a number where a field is expected) — statements the SQL parser ACCEPTS but whose expression tree contains a nil child (a duration literal or
// `*` where a field expression is expected): the tree marshals a `null` child and the leaf's UnmarshalJSON fails.
import (
	"fmt"
	"os"

	"github.com/lindb/lindb/sql"
	"github.com/lindb/lindb/sql/stmt"
)

func main() {
	bad := 0
	for _, q := range []string{
		"select f from m order by f desc",
		"select f as '' from m order by 1m",
		"select f as '' from m order by *",
		"select f as '' from m order by 1 desc",
		"select '' from m order by 1m",
	} {
		st, err := sql.Parse(q)
		if err != nil {
			fmt.Printf("%-60.60s parser rejects: %v\n", q, err)
			continue
		}
		query, ok := st.(*stmt.Query)
		if !ok {
			fmt.Printf("%-60.60s not a query\n", q)
			continue
		}
		data, err := query.MarshalJSON()
		if err != nil {
			fmt.Printf("%-60.60s ACCEPTED, marshal error: %v\n", q, err)
			bad++
			continue
		}
		var back stmt.Query
		if err := back.UnmarshalJSON(data); err != nil {
			fmt.Printf("%-60.60s ACCEPTED, but the wire form can not be read back: %v\n", q, err)
			bad++
			continue
		}
		d2, _ := back.MarshalJSON()
		same := string(d2) == string(data)
		fmt.Printf("%-60.60s round-trips: %v\n", q, same)
		if !same {
			bad++
		}
	}
	if bad > 0 {
		fmt.Println("FAIL")
		os.Exit(1)
	}
	fmt.Println("PASS")
}
