#!/usr/bin/env bash
# one-off triage harness for F75 (not a registered check). exit 0 = the grouping tag values are collected exactly once, 1 = twice
set -u
export GOFLAGS=-mod=mod GOPROXY=off GOSUMDB=off GOTOOLCHAIN=local
ROOT="${1:-/repo}"; HERE="$(cd "$(dirname "$0")" && pwd)"
DEMO_DIR="$ROOT/zz_triage_f75"
trap 'rm -rf "$DEMO_DIR" "$ROOT/query/context/zz_export_demo.go"' EXIT
mkdir -p "$DEMO_DIR"; cp "$HERE/main.go" "$DEMO_DIR/"; cp "$HERE/zz_export_demo.go.txt" "$ROOT/query/context/zz_export_demo.go"
cd "$ROOT" && go run ./zz_triage_f75/ 2>&1 | grep -v "INFO\|WARN" | tail -6
exit "${PIPESTATUS[0]}"
