// F75 triage (C12/C19): two grouping-related tasks of a leaf that complete in the same instant both collect the grouping
// tag values.  Real LeafGroupingContext (Fork / CompleteGroupingTask / collectGroupByTagValues / reduceTagValues) and the
// real StorageExecuteContext; the meta database is an in-memory fake that - like index.kvStore.CollectKVs - removes every id it
// resolves from the bitmap.  exit 1 = after both tasks completed the collected tag values of the leaf are gone (nil map,
// collect counter negative): every group of that leaf would be labelled "tag_value_not_found".
package main

import (
	"context"
	"fmt"
	"os"
	"runtime"
	"sync"
	"sync/atomic"
	"time"

	"github.com/lindb/roaring"

	"github.com/lindb/lindb/flow"
	"github.com/lindb/lindb/index"
	"github.com/lindb/lindb/models"
	protoCommonV1 "github.com/lindb/lindb/proto/gen/v1/common"
	queryctx "github.com/lindb/lindb/query/context"
	trackerpkg "github.com/lindb/lindb/query/tracker"
	"github.com/lindb/lindb/rpc"
	"github.com/lindb/lindb/series/tag"
	stmtpkg "github.com/lindb/lindb/sql/stmt"
	"github.com/lindb/lindb/tsdb"
)

type fakeMetaDB struct {
	index.MetricMetaDatabase
	calls atomic.Int32
}

func (db *fakeMetaDB) CollectTagValues(_ tag.KeyID, ids *roaring.Bitmap, out map[uint32]string) error {
	db.calls.Add(1)
	for _, id := range ids.ToArray() {
		out[id] = fmt.Sprintf("host-%d", id)
		ids.Remove(id) // same as the real dictionary: resolved ids are removed
	}
	return nil
}

type fakeDatabase struct {
	tsdb.Database
	meta *fakeMetaDB
}

func (db *fakeDatabase) MetaDB() index.MetricMetaDatabase { return db.meta }

func main() {
	runtime.GOMAXPROCS(4)
	const rounds = 200000
	lost, twice := 0, 0
	deadline := time.Now().Add(90 * time.Second)
	n := 0
	for ; n < rounds && time.Now().Before(deadline) && lost == 0; n++ {
		taskCtx := flow.NewTaskContextWithTimeout(context.Background(), time.Minute)
		q := &stmtpkg.Query{MetricName: "cpu", GroupBy: []string{"host"}}
		db := &fakeDatabase{meta: &fakeMetaDB{}}
		leaf := queryctx.NewLeafExecuteContext(taskCtx, trackerpkg.NewStageTracker(taskCtx), q,
			&protoCommonV1.TaskRequest{RequestID: "r"}, rpc.NewTaskServerFactory(),
			&models.Target{Indicator: "n1", ShardIDs: []models.ShardID{1, 2}}, []string{"root"}, db)
		sc := leaf.StorageExecuteCtx
		sc.GroupByTags = tag.Metas{{Key: "host", ID: 1}}
		sc.GroupByTagKeyIDs = []tag.KeyID{1}
		sc.GroupingTagValueIDs = []*roaring.Bitmap{roaring.BitmapOf(1, 2)}
		// two shards: both stages are forked before either completes
		leaf.GroupingCtx.ForkGroupingTask()
		leaf.GroupingCtx.ForkGroupingTask()
		var start atomic.Bool
		var wg sync.WaitGroup
		for g := 0; g < 2; g++ {
			wg.Add(1)
			go func() {
				defer wg.Done()
				for !start.Load() {
				}
				leaf.GroupingCtx.CompleteGroupingTask()
			}()
		}
		start.Store(true)
		wg.Wait()
		values, pending := leaf.GroupingCtx.DemoCollected(0)
		if pending < 0 {
			twice++
		}
		if len(values) != 2 {
			lost++
			fmt.Printf("round %d: both tasks completed, collected values of tag key 'host' = %v (want 2 entries), collect counter = %d, dictionary look-ups = %d\n",
				n, values, pending, db.meta.calls.Load())
		}
		taskCtx.Release()
	}
	fmt.Printf("%d rounds, collection ran twice in %d, collected values lost in %d\n", n, twice, lost)
	if lost > 0 || twice > 0 {
		fmt.Println("VIOLATION: two tasks finishing together both collect; the second collection replaces the collected tag values by nil")
		os.Exit(1)
	}
	fmt.Println("OK: exactly one task collected in every round")
}
