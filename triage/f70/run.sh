#!/usr/bin/env bash
# one-off triage harness for F70 (not a registered check). exit 0 = the suspended replicator resumes, 1 = the online notification is lost
# program by a seeding sub-agent (C08 observation O1, round 9): real partition / remote replicator / follower write path, in-memory transport
set -u
export GOFLAGS=-mod=mod GOPROXY=off GOSUMDB=off GOTOOLCHAIN=local
ROOT="${1:-/repo}"; HERE="$(cd "$(dirname "$0")" && pwd)"
DEMO_DIR="$ROOT/zz_triage_f70"
trap 'rm -rf "$DEMO_DIR"' EXIT
mkdir -p "$DEMO_DIR"; cp "$HERE"/*.go "$DEMO_DIR/"
cd "$ROOT" && go run ./zz_triage_f70/ 2>&1 | grep -E '^(replicated|after|final|VIOLATION|RESULT|TIMEOUT|DEMO)'
exit "${PIPESTATUS[0]}"
