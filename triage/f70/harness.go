// Demo harness (not part of lindb): wires a REAL leader partition (replica.NewPartition + the real remote
// replicator and its replica loop) to a REAL follower (app/storage/rpc.ReplicaHandler + replica.NewPartition on a real
// fan out queue) through an in-memory replacement of the grpc transport, with hooks for fault injection.
package main

import (
	"bytes"
	"context"
	"errors"
	"fmt"
	"io"
	"os"
	"path/filepath"
	"sync"
	"time"

	"github.com/lindb/lindb/pkg/timeutil"
	"google.golang.org/grpc"
	"google.golang.org/grpc/metadata"

	storagerpc "github.com/lindb/lindb/app/storage/rpc"
	"github.com/lindb/lindb/coordinator/storage"
	"github.com/lindb/lindb/models"
	"github.com/lindb/lindb/pkg/option"
	"github.com/lindb/lindb/pkg/queue"
	protoReplicaV1 "github.com/lindb/lindb/proto/gen/v1/replica"
	"github.com/lindb/lindb/replica"
	"github.com/lindb/lindb/rpc"
	"github.com/lindb/lindb/tsdb"
)

const (
	leaderID   = models.NodeID(1)
	followerID = models.NodeID(2)
	dbName     = "demo_db"
	shardID    = models.ShardID(3)
)

// ---------------------------------------------------------------- tsdb fakes (only identity is needed)

type fakeDB struct{ tsdb.Database }

func (fakeDB) Name() string                      { return dbName }
func (fakeDB) GetOption() *option.DatabaseOption { return &option.DatabaseOption{} }

type fakeShard struct{ tsdb.Shard }

func (fakeShard) Database() tsdb.Database { return fakeDB{} }
func (fakeShard) ShardID() models.ShardID { return shardID }

type fakeFamily struct {
	tsdb.DataFamily
	start int64
}

func (f fakeFamily) FamilyTime() int64 { return f.start }
func (f fakeFamily) TimeRange() timeutil.TimeRange {
	return timeutil.TimeRange{Start: f.start, End: f.start + 3600*1000 - 1}
}
func (fakeFamily) AckSequence(_ int32, _ func(seq int64)) {}
func (fakeFamily) Retain()                                {}
func (fakeFamily) ValidateSequence(_ int32, _ int64) bool { return true }
func (fakeFamily) CommitSequence(_ int32, _ int64)        {}

// ---------------------------------------------------------------- state manager fake

type fakeStateMgr struct {
	storage.StateManager
	mu      sync.Mutex
	live    bool
	watches []func(state models.NodeStateType)
	// onGetLiveNode is called (outside the lock) after the look-up was answered, with the answer
	onGetLiveNode func(ok bool)
}

func (m *fakeStateMgr) GetLiveNode(nodeID models.NodeID) (models.StatefulNode, bool) {
	m.mu.Lock()
	ok := m.live
	hook := m.onGetLiveNode
	m.mu.Unlock()
	if hook != nil {
		hook(ok)
	}
	return models.StatefulNode{ID: nodeID}, ok
}

func (m *fakeStateMgr) WatchNodeStateChangeEvent(_ models.NodeID, fn func(state models.NodeStateType)) {
	m.mu.Lock()
	defer m.mu.Unlock()
	m.watches = append(m.watches, fn)
}

// setLive behaves like the real state manager: changes the live node list, then notifies the watchers.
func (m *fakeStateMgr) setLive(live bool) {
	m.mu.Lock()
	m.live = live
	ws := append([]func(state models.NodeStateType){}, m.watches...)
	m.mu.Unlock()
	st := models.NodeOffline
	if live {
		st = models.NodeOnline
	}
	for _, w := range ws {
		w(st)
	}
}

// ---------------------------------------------------------------- in-memory transport

// network holds fault injection hooks of the in-memory transport.
type network struct {
	mu       sync.Mutex
	streams  int
	follower *followerNode
	// beforeSend is called before a request is handed to the follower, an error fails the Send.
	beforeSend func(streamNo int, req *protoReplicaV1.ReplicaRequest) error
	// beforeRecv is called before the response is handed to the leader, an error fails the Recv(the response is lost).
	beforeRecv func(streamNo int) error
}

func (n *network) hooks() (func(int, *protoReplicaV1.ReplicaRequest) error, func(int) error) {
	n.mu.Lock()
	defer n.mu.Unlock()
	return n.beforeSend, n.beforeRecv
}

func (n *network) setBeforeSend(fn func(streamNo int, req *protoReplicaV1.ReplicaRequest) error) {
	n.mu.Lock()
	n.beforeSend = fn
	n.mu.Unlock()
}

func (n *network) setBeforeRecv(fn func(streamNo int) error) {
	n.mu.Lock()
	n.beforeRecv = fn
	n.mu.Unlock()
}

type pipe struct {
	no        int
	net       *network
	srvCtx    context.Context
	c2s       chan *protoReplicaV1.ReplicaRequest
	s2c       chan *protoReplicaV1.ReplicaResponse
	closeSend chan struct{}
	closeOnce sync.Once
	done      chan struct{} // server handler returned
}

type clientStream struct {
	grpc.ClientStream
	p *pipe
}

func (c *clientStream) Send(req *protoReplicaV1.ReplicaRequest) error {
	if hook, _ := c.p.net.hooks(); hook != nil {
		if err := hook(c.p.no, req); err != nil {
			return err
		}
	}
	// the transport copies the bytes(like grpc marshals them)
	cp := &protoReplicaV1.ReplicaRequest{ReplicaIndex: req.ReplicaIndex, Record: append([]byte{}, req.Record...)}
	select {
	case c.p.c2s <- cp:
		return nil
	case <-c.p.done:
		return io.EOF
	case <-c.p.closeSend:
		return errors.New("send on closed stream")
	}
}

func (c *clientStream) Recv() (*protoReplicaV1.ReplicaResponse, error) {
	select {
	case resp := <-c.p.s2c:
		if _, hook := c.p.net.hooks(); hook != nil {
			if err := hook(c.p.no); err != nil {
				return nil, err
			}
		}
		return resp, nil
	case <-c.p.done:
		select {
		case resp := <-c.p.s2c:
			return resp, nil
		default:
		}
		return nil, errors.New("stream terminated by server")
	}
}

func (c *clientStream) CloseSend() error {
	c.p.closeOnce.Do(func() { close(c.p.closeSend) })
	return nil
}

type serverStream struct {
	grpc.ServerStream
	p *pipe
}

func (s *serverStream) Context() context.Context { return s.p.srvCtx }

func (s *serverStream) Recv() (*protoReplicaV1.ReplicaRequest, error) {
	select {
	case req := <-s.p.c2s:
		return req, nil
	case <-s.p.closeSend:
		return nil, io.EOF
	}
}

func (s *serverStream) Send(resp *protoReplicaV1.ReplicaResponse) error {
	select {
	case s.p.s2c <- resp:
		return nil
	default:
		return errors.New("response buffer full")
	}
}

// replicaClient is the in-memory protoReplicaV1.ReplicaServiceClient, it calls the real handler of the follower.
type replicaClient struct {
	net *network
}

func (c *replicaClient) Reset(ctx context.Context, in *protoReplicaV1.ResetIndexRequest,
	_ ...grpc.CallOption) (*protoReplicaV1.ResetIndexResponse, error) {
	return c.net.follower.handler.Reset(ctx, in)
}

func (c *replicaClient) GetReplicaAckIndex(ctx context.Context, in *protoReplicaV1.GetReplicaAckIndexRequest,
	_ ...grpc.CallOption) (*protoReplicaV1.GetReplicaAckIndexResponse, error) {
	return c.net.follower.handler.GetReplicaAckIndex(ctx, in)
}

func (c *replicaClient) Replica(ctx context.Context, _ ...grpc.CallOption) (protoReplicaV1.ReplicaService_ReplicaClient, error) {
	md, _ := metadata.FromOutgoingContext(ctx)
	c.net.mu.Lock()
	c.net.streams++
	no := c.net.streams
	c.net.mu.Unlock()
	p := &pipe{
		no:        no,
		net:       c.net,
		srvCtx:    metadata.NewIncomingContext(context.Background(), md),
		c2s:       make(chan *protoReplicaV1.ReplicaRequest),
		s2c:       make(chan *protoReplicaV1.ReplicaResponse, 64),
		closeSend: make(chan struct{}),
		done:      make(chan struct{}),
	}
	go func() {
		defer close(p.done)
		_ = c.net.follower.handler.Replica(&serverStream{p: p})
	}()
	return &clientStream{p: p}, nil
}

type fakeCliFct struct {
	rpc.ClientStreamFactory
	net *network
}

func (f *fakeCliFct) CreateReplicaServiceClient(_ models.Node) (protoReplicaV1.ReplicaServiceClient, error) {
	return &replicaClient{net: f.net}, nil
}

// ---------------------------------------------------------------- follower node

// followerNode is the follower storage node: the real replica rpc handler on top of a write ahead log manager which
// hands out the real partition of the family log.
type followerNode struct {
	mu      sync.Mutex
	baseDir string
	gen     int
	start   int64
	part    replica.Partition
	log     queue.FanOutQueue
	// wrapLog optionally wraps the fan out queue of the follower(fault injection at the storage level)
	wrapLog func(q queue.FanOutQueue) queue.FanOutQueue
	handler *storagerpc.ReplicaHandler
}

type followerWALMgr struct {
	replica.WriteAheadLogManager
	node *followerNode
}

func (m *followerWALMgr) GetOrCreateLog(_ string) replica.WriteAheadLog {
	return &followerWAL{node: m.node}
}

type followerWAL struct {
	replica.WriteAheadLog
	node *followerNode
}

func (w *followerWAL) GetOrCreatePartition(_ models.ShardID, _ int64, _ models.NodeID) (replica.Partition, error) {
	return w.node.partition()
}

func newFollowerNode(baseDir string, start int64) *followerNode {
	n := &followerNode{baseDir: baseDir, start: start}
	n.handler = storagerpc.NewReplicaHandler(&followerWALMgr{node: n})
	return n
}

func (n *followerNode) partition() (replica.Partition, error) {
	n.mu.Lock()
	defer n.mu.Unlock()
	if n.part != nil {
		return n.part, nil
	}
	dir := filepath.Join(n.baseDir, fmt.Sprintf("follower-%d", n.gen))
	q, err := queue.NewFanOutQueue(dir, 0)
	if err != nil {
		return nil, err
	}
	n.log = q
	var fq = q
	if n.wrapLog != nil {
		fq = n.wrapLog(q)
	}
	n.part = replica.NewPartition(context.Background(), fakeShard{}, fakeFamily{start: n.start}, followerID, fq, nil, nil)
	return n.part, nil
}

// queue returns the real queue of the follower's current log(opens it when needed).
func (n *followerNode) queue() queue.Queue {
	if _, err := n.partition(); err != nil {
		fatalf("open follower log: %v", err)
	}
	n.mu.Lock()
	defer n.mu.Unlock()
	return n.log.Queue()
}

// restart closes the partition(streams of the old process keep the closed one), the log is kept.
func (n *followerNode) restart() {
	n.mu.Lock()
	defer n.mu.Unlock()
	if n.part != nil {
		_ = n.part.Close()
		n.part = nil
		n.log = nil
	}
}

// loseLog is a restart of the follower which comes back with an empty disk.
func (n *followerNode) loseLog() {
	n.restart()
	n.mu.Lock()
	n.gen++
	n.mu.Unlock()
}

// ---------------------------------------------------------------- leader node

type leaderNode struct {
	log      queue.FanOutQueue
	part     replica.Partition
	cg       queue.ConsumerGroup // consumer group of the follower on the leader
	stateMgr *fakeStateMgr
	net      *network
}

func newLeaderNode(dir string, start int64, follower *followerNode) *leaderNode {
	return newLeaderNodeOpt(dir, start, follower, true, nil)
}

// newLeaderNodeOpt opens the leader's log under dir, prepare(optional) runs on the opened log before the partition
// is built, followerLive is what the state manager initially knows about the follower.
func newLeaderNodeOpt(dir string, start int64, follower *followerNode, followerLive bool,
	prepare func(q queue.FanOutQueue)) *leaderNode {
	net := &network{follower: follower}
	stateMgr := &fakeStateMgr{live: followerLive}
	q, err := queue.NewFanOutQueue(filepath.Join(dir, "leader"), 0)
	if err != nil {
		fatalf("open leader log: %v", err)
	}
	if prepare != nil {
		prepare(q)
	}
	p := replica.NewPartition(context.Background(), fakeShard{}, fakeFamily{start: start}, leaderID, q,
		&fakeCliFct{net: net}, stateMgr)
	if err := p.BuildReplicaForLeader(leaderID, []models.NodeID{followerID}); err != nil {
		fatalf("build replica: %v", err)
	}
	cg, err := q.GetOrCreateConsumerGroup(fmt.Sprintf("%d", followerID))
	if err != nil {
		fatalf("consumer group: %v", err)
	}
	return &leaderNode{log: q, part: p, cg: cg, stateMgr: stateMgr, net: net}
}

// crash stops the leader(process exit), the log files are kept.
func (l *leaderNode) crash() {
	l.part.Stop()
	_ = l.part.Close()
}

func (l *leaderNode) append(msg []byte) {
	if err := l.part.WriteLog(msg); err != nil {
		fatalf("leader append: %v", err)
	}
}

// ---------------------------------------------------------------- helpers

func msgOf(i int) []byte { return []byte(fmt.Sprintf("message-%04d-of-the-leader", i)) }

func waitFor(what string, timeout time.Duration, cond func() bool) bool {
	deadline := time.Now().Add(timeout)
	for time.Now().Before(deadline) {
		if cond() {
			return true
		}
		time.Sleep(2 * time.Millisecond)
	}
	fmt.Printf("TIMEOUT waiting for: %s\n", what)
	return false
}

func fatalf(format string, args ...interface{}) {
	fmt.Printf("DEMO SETUP ERROR: "+format+"\n", args...)
	os.Exit(3)
}

// compareLogs checks the follower's log against the leader's at every position in [from, to].
// returns a description of the violations.
func compareLogs(leader, follower queue.Queue, from, to int64) (violations []string) {
	for i := from; i <= to; i++ {
		lm, lerr := leader.Get(i)
		if lerr != nil {
			continue // the leader doesn't hold the position any more
		}
		fm, ferr := follower.Get(i)
		switch {
		case ferr != nil:
			violations = append(violations, fmt.Sprintf("position %d: leader holds %q, follower: %v", i, lm, ferr))
		case !bytes.Equal(lm, fm):
			violations = append(violations, fmt.Sprintf("position %d: leader holds %q, follower holds %q", i, lm, fm))
		}
	}
	return violations
}
