// Observation O1 (UNCHANGED tree): lost wake-up of a suspended remote replicator.
// remoteReplicator.IsReady looks the follower up (GetLiveNode -> offline), THEN marks itself suspended
// (isSuspend CAS false->true) and blocks on <-r.suspend. handleNodeStateChangeEvent only notifies when it finds
// isSuspend == true. A "node online" event which is processed between the look-up and the CAS is dropped and the
// replicator sleeps until the follower goes offline and online ONCE MORE, although the follower is online all the time.
package main

import (
	"fmt"
	"os"
	"sync"
	"time"
)

func main() {
	dir, err := os.MkdirTemp("", "c08-obs1-")
	if err != nil {
		fatalf("%v", err)
	}
	defer os.RemoveAll(dir)

	start := time.Now().Truncate(time.Hour).UnixMilli()
	follower := newFollowerNode(dir, start)
	// the follower is offline when the leader starts
	leader := newLeaderNodeOpt(dir, start, follower, false, nil)

	// the follower comes online right after the replicator looked it up(the state manager processes the event in
	// its own goroutine: adds the node to the live nodes, then calls the watchers)
	var once sync.Once
	leader.stateMgr.mu.Lock()
	leader.stateMgr.onGetLiveNode = func(ok bool) {
		if !ok {
			once.Do(func() { leader.stateMgr.setLive(true) })
		}
	}
	leader.stateMgr.mu.Unlock()

	for i := 0; i < 3; i++ {
		leader.append(msgOf(i))
	}
	leader.part.StartReplica()

	ok := waitFor("follower receives 0..2", 5*time.Second, func() bool { return follower.queue().AppendedSeq() == 2 })
	_, live := leader.stateMgr.GetLiveNode(followerID)
	fmt.Printf("after 5s: follower live(in state manager)=%v, leader appended=%d, follower appended=%d\n",
		live, leader.log.Queue().AppendedSeq(), follower.queue().AppendedSeq())
	if ok {
		fmt.Println("RESULT: replication resumed, no lost wake-up")
		return
	}
	fmt.Println("VIOLATION: the follower is online, the replicator stays suspended(online notification lost)")
	// only another online notification helps
	leader.stateMgr.setLive(true)
	ok = waitFor("follower receives 0..2 after a 2nd notification", 5*time.Second, func() bool { return follower.queue().AppendedSeq() == 2 })
	fmt.Printf("after a second online notification: follower appended=%d (resumed=%v)\n", follower.queue().AppendedSeq(), ok)
	fmt.Println("RESULT: property C08 violated(no resynchronisation without a further event)")
	os.Exit(1)
}
