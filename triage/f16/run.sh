#!/bin/sh
# one-off triage harness for F16 (not a registered check): needs a demo-only export file inside <root>/index
export GOFLAGS=-mod=mod GOPROXY=off GOSUMDB=off GOTOOLCHAIN=local
HERE="$(cd "$(dirname "$0")" && pwd)"; ROOT="${1:-/repo}"
cleanup() { rm -f "$ROOT/index/zz_export_demo.go"; rm -rf "$ROOT/zz_triage_f16"; }
trap cleanup EXIT
cp "$HERE/zz_export_demo.go.txt" "$ROOT/index/zz_export_demo.go"
mkdir -p "$ROOT/zz_triage_f16" && cp "$HERE"/main.go "$ROOT/zz_triage_f16/"
cd "$ROOT" && timeout 120 go run ./zz_triage_f16 2>&1 | grep -v "INFO\|WARN\|^$"
