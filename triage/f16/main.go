package main

// F16 triage (C09): metricSchemaStore.Flush writes the schemas of the immutable store WITHOUT the store lock and
// afterwards marks every field / tag key of those schema objects as persisted.  A schema object taken from the
// immutable store is also registered in the mutable store (same pointer), so a field created between the write and
// the marking is marked persisted although it was never written: no later flush writes it, after a restart the
// field is gone and its id is handed to the next new field.
import (
	"fmt"
	"os"
	"path/filepath"

	"github.com/lindb/lindb/index"
	"github.com/lindb/lindb/series/field"
)

func must(err error) {
	if err != nil {
		panic(err)
	}
}

func main() {
	dir, _ := os.MkdirTemp("", "f16-")
	defer os.RemoveAll(dir)
	open := func() index.MetricMetaDatabase {
		db, err := index.NewMetricMetaDatabase("demo", filepath.Join(dir, "meta"))
		must(err)
		return db
	}
	db := open()
	mid, err := db.GenMetricID([]byte("ns"), []byte("cpu"))
	must(err)
	gen := func(d index.MetricMetaDatabase, name string) field.ID {
		id, err := d.GenFieldID(mid, field.Meta{Name: field.Name(name), Type: field.SumField})
		must(err)
		fmt.Printf("field %s -> id %d\n", name, id)
		return id
	}
	gen(db, "usage")
	db.PrepareFlush()
	var idleID field.ID
	index.DemoBeforeSchemaFlusherClose(func() {
		fmt.Println("  [writer] a new field arrives while the flush is between writing and marking")
		idleID = gen(db, "idle")
	})
	must(db.Flush())
	// a complete second flush: everything created so far must be durable afterwards
	db.PrepareFlush()
	must(db.Flush())
	must(db.Close())

	db2 := open()
	schema, err := db2.GetSchema(mid)
	must(err)
	fmt.Printf("after reopen: fields %v\n", schema.Fields)
	if _, ok := schema.Fields.Find("idle"); !ok {
		newID := gen(db2, "system")
		fmt.Printf("FAIL: field idle (id %d) was acknowledged before two complete flushes but is gone after reopen; the next new field received id %d\n", idleID, newID)
		os.Exit(1)
	}
	fmt.Println("PASS: every field created before the last flush survived the reopen")
}
