package main

// F15 triage (C11): metricReader.readSeriesData puts the data of a file that holds exactly ONE field into query field
// index 0, whatever field that is: for `select f1,f2` a file holding only f2 delivers f2's points as f1.
import (
	"fmt"
	"os"

	protoMetricsV1 "github.com/lindb/common/proto/gen/v1/linmetrics"

	"github.com/lindb/lindb/series/field"
)

func main() {
	h := newHarness()
	base := baseTime()
	at := func(slot int) int64 { return base + int64(slot)*10000 }
	// file 1: both fields
	h.write(point{name: "m", tags: map[string]string{"host": "a"}, ts: at(3), fields: []*protoMetricsV1.SimpleField{sumField("f1", 10), maxField("f2", 100)}})
	h.flush(base)
	// file 2: only f2 was reported in this flush interval
	h.write(point{name: "m", tags: map[string]string{"host": "a"}, ts: at(5), fields: []*protoMetricsV1.SimpleField{maxField("f2", 205)}})
	failed := false
	check := func(phase string) {
		rs, errMsg := h.query("select f1,f2 from m where host='a'", base, base+20*10000)
		f1 := rs[""]["f1"][field.Sum]
		f2 := rs[""]["f2"][field.Max]
		ok := errMsg == "" && len(f1) == 1 && f1[3] == 10 && len(f2) == 2 && f2[3] == 100 && f2[5] == 205
		if !ok {
			failed = true
			fmt.Printf("MISMATCH [%s] err=%q f1=%v (want map[3:10]) f2=%v (want map[3:100 5:205])\n", phase, errMsg, f1, f2)
		} else {
			fmt.Printf("ok       [%s] f1=%v f2=%v\n", phase, f1, f2)
		}
	}
	check("second write in memory")
	h.flush(base)
	check("second write flushed to a single-field file")
	h.close()
	if failed {
		fmt.Println("FAIL: the points of a single-field file are attributed to the first queried field")
		os.Exit(1)
	}
	fmt.Println("PASS")
}
