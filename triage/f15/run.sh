#!/bin/sh
# one-off triage harness for F15 (not a registered check)
export GOFLAGS=-mod=mod GOPROXY=off GOSUMDB=off GOTOOLCHAIN=local
HERE="$(cd "$(dirname "$0")" && pwd)"; ROOT="${1:-/repo}"
cleanup() { rm -rf "$ROOT/zz_triage_f15"; }
trap cleanup EXIT
mkdir -p "$ROOT/zz_triage_f15" && cp "$HERE"/main.go "$HERE"/harness.go "$ROOT/zz_triage_f15/"
cd "$ROOT" && timeout 300 go run ./zz_triage_f15 2>/dev/null | grep -E "^(ok |MISMATCH|FAIL|PASS|HARNESS)"
