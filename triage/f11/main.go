package main

// F11 triage (C10): forwardIndex.GetGroupingContext takes the family snapshot BEFORE reading the memory
// stores. A flush of the forward index that completes in between moves the series->tag-value entries of the
// immutable store into a NEWER snapshot: the group-by sees them in neither place, the series selected by the
// filter are dropped from the result (or the query answers "not found").
import (
	"bytes"
	"fmt"
	"os"
	"path/filepath"

	protoMetricsV1 "github.com/lindb/common/proto/gen/v1/linmetrics"
	"github.com/lindb/roaring"

	"github.com/lindb/lindb/flow"
	"github.com/lindb/lindb/index"
	"github.com/lindb/lindb/models"
	"github.com/lindb/lindb/series/metric"
	"github.com/lindb/lindb/series/tag"
	"github.com/lindb/lindb/sql/stmt"
)

func row(host string) *metric.StorageRow {
	m := &protoMetricsV1.Metric{Name: "cpu.load", Namespace: "ns",
		Tags:         []*protoMetricsV1.KeyValue{{Key: "host", Value: host}},
		SimpleFields: []*protoMetricsV1.SimpleField{{Name: "f1", Type: protoMetricsV1.SimpleFieldType_DELTA_SUM, Value: 10}}}
	var ml protoMetricsV1.MetricList
	ml.Metrics = append(ml.Metrics, m)
	var buf bytes.Buffer
	if _, err := metric.NewProtoConverter(models.NewDefaultLimits()).MarshalProtoMetricListV1To(ml, &buf); err != nil {
		panic(err)
	}
	var br metric.StorageBatchRows
	br.UnmarshalRows(buf.Bytes())
	return br.Rows()[0]
}

func must(err error) {
	if err != nil {
		panic(err)
	}
}

func main() {
	dir, _ := os.MkdirTemp("", "f11-")
	defer os.RemoveAll(dir)
	metaDB, err := index.NewMetricMetaDatabase("demo", filepath.Join(dir, "meta"))
	must(err)
	indexDB, err := index.NewMetricIndexDatabase(filepath.Join(dir, "index"), metaDB)
	must(err)
	metricID, err := metaDB.GenMetricID([]byte("ns"), []byte("cpu.load"))
	must(err)
	all := roaring.New()
	gen := func(h string) {
		id, err := indexDB.GenSeriesID(metricID, row(h))
		must(err)
		all.Add(id)
		fmt.Printf("host=%s -> series id %d\n", h, id)
	}
	gen("a")
	gen("b")
	indexDB.PrepareFlush()
	must(indexDB.Flush()) // series 0,1 persisted
	gen("c")
	gen("d")
	hostKey, err := metaDB.GenTagKeyID(metricID, []byte("host"))
	must(err)

	groupBy := func() (*roaring.Bitmap, error) {
		ctx := flow.NewShardExecuteContext(&flow.StorageExecuteContext{GroupByTagKeyIDs: []tag.KeyID{hostKey}})
		ctx.SeriesIDsAfterFiltering = all.Clone()
		err := indexDB.GetGroupingContext(ctx)
		return ctx.SeriesIDsAfterFiltering, err
	}
	got, err := groupBy()
	fmt.Printf("group-by host before flush: series %v err=%v\n", got.ToArray(), err)

	indexDB.PrepareFlush() // series 2,3 now in the immutable store, flush goroutine about to run
	index.DemoAfterForwardSnapshot(indexDB, func() {
		fmt.Println("  [flush goroutine] forward index flushed while a query is between snapshot and memory read")
		must(index.DemoFlushForward(indexDB))
	})
	got, err = groupBy()
	fmt.Printf("group-by host during flush: series %v err=%v\n", got.ToArray(), err)
	if err != nil || !got.Equals(all) {
		fmt.Printf("FAIL: group-by over series %v returned only %v: series written and acknowledged before the query are missing\n", all.ToArray(), got.ToArray())
		os.Exit(1)
	}
	fmt.Println("PASS: group-by returned every selected series")

	// ---- part 2: the tag-value dictionary readers (regex / like / all values / names for group-by) ----
	// values a,b flushed above together with the first index flush? no: the meta database is flushed separately
	metaDB.PrepareFlush()
	must(metaDB.Flush()) // a,b,c,d persisted
	gen("e1")
	gen("e2")
	bad := false
	check := func(what string, n int, f func() (int, error)) {
		metaDB.PrepareFlush() // new values now in the immutable store
		index.DemoBeforeTagValueRead(metaDB, func() {
			fmt.Println("  [flush goroutine] tag values flushed while a query is between snapshot and memory read")
			must(index.DemoFlushTagValues(metaDB))
		})
		got, err := f()
		fmt.Printf("%s during flush: %d values err=%v (want %d)\n", what, got, err, n)
		if err != nil || got != n {
			bad = true
		}
	}
	check("regex e.*", 2, func() (int, error) {
		ids, err := metaDB.FindTagValueDsByExpr(hostKey, &stmt.RegexExpr{Key: "host", Regexp: "e.*"})
		if err != nil {
			return 0, err
		}
		return int(ids.GetCardinality()), nil
	})
	gen("f1")
	check("like f*", 1, func() (int, error) {
		ids, err := metaDB.FindTagValueDsByExpr(hostKey, &stmt.LikeExpr{Key: "host", Value: "f*"})
		if err != nil {
			return 0, err
		}
		return int(ids.GetCardinality()), nil
	})
	gen("g1")
	check("all values of host", 8, func() (int, error) {
		ids, err := metaDB.FindTagValueIDsForTag(hostKey)
		if err != nil {
			return 0, err
		}
		return int(ids.GetCardinality()), nil
	})
	gen("h1")
	check("names of all value ids", 9, func() (int, error) {
		ids, _ := metaDB.FindTagValueIDsForTag(hostKey)
		names := map[uint32]string{}
		err := metaDB.CollectTagValues(hostKey, ids, names)
		return len(names), err
	})
	if bad {
		fmt.Println("FAIL: tag values written before the query are missing from a lookup that overlaps a flush")
		os.Exit(1)
	}
	fmt.Println("PASS: tag-value lookups returned every value")
}
