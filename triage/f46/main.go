// F46 triage: the database-config watcher and the shard-assignment watcher of the master are two goroutines on two etcd watches;
// nothing orders an event of one against an event of the other. A database is created and dropped before the assignment watcher
// has delivered the master's own assignment writes: DatabaseConfigDeletion is handled first, then the backlog
// ShardAssignmentChanged (x2), then ShardAssignmentDeletion. Afterwards nothing may be reported for the dropped database.
// (history found by a seeding sub-agent, C18 round 6 observation 1; harness.go is the harness of the C18 demos)
package main

import (
	"encoding/json"
	"fmt"
	"os"
	"time"

	"github.com/lindb/common/pkg/logger"
	"go.uber.org/zap/zapcore"

	"github.com/lindb/lindb/constants"
	"github.com/lindb/lindb/coordinator/discovery"
	"github.com/lindb/lindb/models"
)

// emit feeds one event and waits until it has been processed; nothing else is delivered.
func (h *harness) emit(e *discovery.Event) {
	barrierCfg, _ := json.Marshal(&models.Database{Name: barrierDB})
	h.mgr.EmitEvent(e)
	h.mgr.EmitEvent(&discovery.Event{Type: discovery.DatabaseConfigChanged, Key: constants.GetDatabaseConfigPath(barrierDB), Value: barrierCfg})
	select {
	case <-h.repo.barrier:
	case <-time.After(10 * time.Second):
		fmt.Println("HARNESS ERROR: event was not processed:", e.Type, e.Key)
		os.Exit(2)
	}
}

func report(h *harness, when string) (online int) {
	st := h.mgr.GetStorageState()
	_, hasAssign := st.ShardAssignments["a"]
	for _, s := range st.ShardStates["a"] {
		if s.State == models.OnlineShard {
			online++
		}
	}
	fmt.Printf("[obs] %-58s state reports assignment of a: %v, shards of a: %d (%d online)\n", when+":", hasAssign, len(st.ShardStates["a"]), online)
	return online
}

func main() {
	logger.RunningAtomicLevel.SetLevel(zapcore.FatalLevel)
	h := newHarness()
	defer h.mgr.Close()
	for id := 1; id <= 3; id++ {
		h.nodeUp(models.NodeID(id))
	}
	cfg, _ := json.Marshal(&models.Database{Name: "a", NumOfShard: 4, ReplicaFactor: 2})
	cfgKey, assignKey := constants.GetDatabaseConfigPath("a"), constants.GetDatabaseAssignPath("a")
	h.repo.set(cfgKey, cfg) // the broker stores the config
	h.emit(&discovery.Event{Type: discovery.DatabaseConfigChanged, Key: cfgKey, Value: cfg})
	backlog := h.repo.drainAssigns() // the master's writes of the assignment key, not yet delivered by the assignment watcher
	report(h, fmt.Sprintf("create a (4 shards, rf 2), %d assignment write(s) pending", len(backlog)))
	// the database is dropped: the broker removes config and assignment
	h.repo.del(cfgKey)
	h.repo.del(assignKey)
	h.emit(&discovery.Event{Type: discovery.DatabaseConfigDeletion, Key: cfgKey})
	report(h, "DatabaseConfigDeletion(a) handled")
	for _, kv := range backlog {
		h.emit(&discovery.Event{Type: discovery.ShardAssignmentChanged, Key: kv[0], Value: []byte(kv[1])})
	}
	report(h, "late ShardAssignmentChanged(a) delivered")
	h.emit(&discovery.Event{Type: discovery.ShardAssignmentDeletion, Key: assignKey})
	n := report(h, "ShardAssignmentDeletion(a) delivered")
	h.nodeDown(2)
	h.nodeUp(2)
	n += report(h, "after node 2 went down and came back")
	st := h.mgr.GetStorageState()
	if _, ok := st.ShardAssignments["a"]; ok || len(st.ShardStates["a"]) > 0 || n > 0 {
		fmt.Println("FAIL: database a does not exist (dropped) but the storage state still reports shards of it online with a leader")
		os.Exit(1)
	}
	fmt.Println("PASS: nothing is reported for the dropped database")
}
