// Harness of the C18 demos (m11, m12; extended from the one of m9/m10): drives the real master StateManager
// (coordinator/master) with an in-memory state repository, including master fail-over
// (a NEW StateManager is started on the same repository, exactly as
// masterController.OnFailOver does, and is fed what the state machines feed it on start:
// the live storage nodes, then the database configs, then the shard assignments).
//
// Every discovery event is fed through EmitEvent and followed by a "barrier" event (a
// config change of a helper database with 0 shards: the manager answers it with a read of
// that database's assignment key and nothing else), so the harness knows when the event has
// been processed. Every write of a shard-assignment key is delivered back to the manager as
// a ShardAssignmentChanged event, as the etcd watch does.
//
// Reference model: the set of alive nodes, the configured databases and the shard
// assignment the master published (the database-assign key). After every event:
//
//   - every published shard has exactly replica-factor distinct nodes, all of them alive
//     when the shard was first published, first replicas handed out round-robin;
//   - a shard that has been published never moves (grow keeps existing shards);
//   - a shard is reported Online exactly when at least one of its replicas is alive
//     (a shard without a state entry counts as "not reported online");
//   - the leader of an Online shard is an alive replica of it, an Offline shard has none;
//   - nothing is reported for a database that does not exist (any more).
package main

import (
	"context"
	"encoding/json"
	"fmt"
	"os"
	"sort"
	"strconv"
	"strings"
	"sync"
	"time"

	"github.com/lindb/lindb/constants"
	"github.com/lindb/lindb/coordinator/discovery"
	"github.com/lindb/lindb/coordinator/master"
	"github.com/lindb/lindb/models"
	"github.com/lindb/lindb/pkg/state"
)

const barrierDB = "zz_barrier"

// ---------------------------------------------------------------- in-memory repository

type memRepo struct {
	mu      sync.Mutex
	kv      map[string][]byte
	assigns [][2]string // (key, value) of every Put on a shard-assignment key since the last drain
	barrier chan struct{}
	// fault, if set, is asked before every Put/Delete of the master; a non-nil result is returned
	// to the master instead of executing the operation (a transient repository failure)
	fault func(op, key string) error
}

func (r *memRepo) injected(op, key string) error {
	r.mu.Lock()
	f := r.fault
	r.mu.Unlock()
	if f == nil {
		return nil
	}
	return f(op, key)
}

func newMemRepo() *memRepo {
	return &memRepo{kv: map[string][]byte{}, barrier: make(chan struct{}, 64)}
}

func (r *memRepo) Get(_ context.Context, key string) ([]byte, error) {
	if key == constants.GetDatabaseAssignPath(barrierDB) {
		r.barrier <- struct{}{}
		return nil, state.ErrNotExist
	}
	r.mu.Lock()
	defer r.mu.Unlock()
	v, ok := r.kv[key]
	if !ok {
		return nil, state.ErrNotExist
	}
	return append([]byte(nil), v...), nil
}

func (r *memRepo) peek(key string) ([]byte, bool) {
	r.mu.Lock()
	defer r.mu.Unlock()
	v, ok := r.kv[key]
	return append([]byte(nil), v...), ok
}

func (r *memRepo) list(prefix string) (rs []state.KeyValue) {
	r.mu.Lock()
	defer r.mu.Unlock()
	var keys []string
	for k := range r.kv {
		if strings.HasPrefix(k, prefix+"/") {
			keys = append(keys, k)
		}
	}
	sort.Strings(keys)
	for _, k := range keys {
		rs = append(rs, state.KeyValue{Key: k, Value: append([]byte(nil), r.kv[k]...)})
	}
	return rs
}

func (r *memRepo) List(_ context.Context, prefix string) ([]state.KeyValue, error) {
	return r.list(prefix), nil
}

func (r *memRepo) set(key string, val []byte) {
	r.mu.Lock()
	r.kv[key] = append([]byte(nil), val...)
	r.mu.Unlock()
}

func (r *memRepo) del(key string) {
	r.mu.Lock()
	delete(r.kv, key)
	r.mu.Unlock()
}

func (r *memRepo) Put(_ context.Context, key string, val []byte) error {
	if err := r.injected("put", key); err != nil {
		return err
	}
	r.mu.Lock()
	r.kv[key] = append([]byte(nil), val...)
	if strings.HasPrefix(key, constants.ShardAssignmentPath+"/") {
		r.assigns = append(r.assigns, [2]string{key, string(val)})
	}
	r.mu.Unlock()
	return nil
}

func (r *memRepo) drainAssigns() [][2]string {
	r.mu.Lock()
	defer r.mu.Unlock()
	rs := r.assigns
	r.assigns = nil
	return rs
}

func (r *memRepo) Delete(_ context.Context, key string) error {
	if err := r.injected("delete", key); err != nil {
		return err
	}
	r.del(key)
	return nil
}

func (r *memRepo) WalkEntry(context.Context, string, func(key, value []byte)) error { return nil }
func (r *memRepo) PutWithTX(context.Context, string, []byte, func([]byte) error) (bool, error) {
	panic("not used")
}
func (r *memRepo) Heartbeat(context.Context, string, []byte, int64) (<-chan state.Closed, error) {
	panic("not used")
}
func (r *memRepo) Elect(context.Context, string, []byte, int64) (bool, <-chan state.Closed, error) {
	panic("not used")
}
func (r *memRepo) Watch(context.Context, string, bool) state.WatchEventChan       { panic("not used") }
func (r *memRepo) WatchPrefix(context.Context, string, bool) state.WatchEventChan { panic("not used") }
func (r *memRepo) Batch(context.Context, state.Batch) (bool, error)               { panic("not used") }
func (r *memRepo) NextSequence(context.Context, string) (int64, error)            { panic("not used") }
func (r *memRepo) NewTransaction() state.Transaction                              { panic("not used") }
func (r *memRepo) Commit(context.Context, state.Transaction) error                { panic("not used") }
func (r *memRepo) Close() error                                                   { return nil }

// ---------------------------------------------------------------- harness

type placement struct {
	replicas []models.NodeID
}

type harness struct {
	repo   *memRepo
	mgr    master.StateManager
	alive  map[models.NodeID]bool
	dbs    map[string]*models.Database              // databases with a published assignment
	placed map[string]map[models.ShardID]*placement // first published placement of every shard
	trace  []string
	opErr  error // an operation that should have succeeded did not
	// events of the storage-node watcher that have not reached the master yet (the storage-node
	// watcher and the database-config watcher are different goroutines on different etcd watches:
	// nothing orders a node event against a database event)
	pendingNode []*discovery.Event
}

func newHarness() *harness {
	repo := newMemRepo()
	return &harness{
		repo:   repo,
		mgr:    master.NewStateManager(context.Background(), repo, nil),
		alive:  map[models.NodeID]bool{},
		dbs:    map[string]*models.Database{},
		placed: map[string]map[models.ShardID]*placement{},
	}
}

// do feeds one event, waits until it has been processed, then delivers the resulting
// shard-assignment change events (and theirs, until nothing is written any more).
func (h *harness) do(ev *discovery.Event) {
	barrierCfg, _ := json.Marshal(&models.Database{Name: barrierDB})
	pending := []*discovery.Event{ev}
	for len(pending) > 0 {
		e := pending[0]
		pending = pending[1:]
		h.mgr.EmitEvent(e)
		h.mgr.EmitEvent(&discovery.Event{Type: discovery.DatabaseConfigChanged,
			Key: constants.GetDatabaseConfigPath(barrierDB), Value: barrierCfg})
		select {
		case <-h.repo.barrier:
		case <-time.After(10 * time.Second):
			fmt.Println("HARNESS ERROR: event was not processed:", e.Type, e.Key, "\ntrace:", h.trace)
			os.Exit(2)
		}
		for _, kv := range h.repo.drainAssigns() {
			if cur, ok := h.repo.peek(kv[0]); !ok || string(cur) != kv[1] {
				continue // overwritten or deleted since, the watch delivers the latest value
			}
			pending = append(pending, &discovery.Event{Type: discovery.ShardAssignmentChanged, Key: kv[0], Value: []byte(kv[1])})
		}
	}
}

func nodeKey(id models.NodeID) string {
	return constants.GetStorageLiveNodePath(strconv.Itoa(int(id)))
}

func nodeData(id models.NodeID) []byte {
	node := models.StatefulNode{ID: id, StatelessNode: models.StatelessNode{HostIP: fmt.Sprintf("10.0.0.%d", id), GRPCPort: 2891}}
	data, _ := json.Marshal(&node)
	return data
}

func (h *harness) nodeUp(id models.NodeID) {
	h.trace = append(h.trace, fmt.Sprintf("up(%d)", id))
	h.repo.set(nodeKey(id), nodeData(id)) // the node registers itself (lease key)
	h.alive[id] = true
	h.do(&discovery.Event{Type: discovery.NodeStartup, Key: nodeKey(id), Value: nodeData(id)})
}

func (h *harness) nodeDown(id models.NodeID) {
	h.trace = append(h.trace, fmt.Sprintf("down(%d)", id))
	h.repo.del(nodeKey(id)) // lease expired
	delete(h.alive, id)
	h.do(&discovery.Event{Type: discovery.NodeFailure, Key: nodeKey(id)})
}

// leaseExpires: the node dies, its lease key disappears from the repository NOW; the NodeFailure event
// of the storage-node watcher reaches the master later (deliverNodeEvents).
func (h *harness) leaseExpires(id models.NodeID) {
	h.trace = append(h.trace, fmt.Sprintf("lease-expires(%d)", id))
	h.repo.del(nodeKey(id))
	delete(h.alive, id)
	h.pendingNode = append(h.pendingNode, &discovery.Event{Type: discovery.NodeFailure, Key: nodeKey(id)})
}

// deliverNodeEvents hands the delayed storage-node events to the master, in their order.
func (h *harness) deliverNodeEvents() {
	for _, ev := range h.pendingNode {
		h.trace = append(h.trace, fmt.Sprintf("deliver(%s %s)", ev.Type, ev.Key[strings.LastIndex(ev.Key, "/")+1:]))
		h.do(ev)
	}
	h.pendingNode = nil
}

// failOver replaces the master: the old state manager is closed and a new one is started on the
// same repository. If stopNodes is given, those storage nodes stop while no master is running
// (their lease keys are simply gone when the new master lists the live nodes).
// The new master is fed, in the order StateMachineFactory.Start uses: the live storage nodes,
// the database configs, the shard assignments.
func (h *harness) failOver(stopNodes ...models.NodeID) {
	if len(stopNodes) > 0 {
		h.trace = append(h.trace, fmt.Sprintf("master-stops stop%v new-master", stopNodes))
	} else {
		h.trace = append(h.trace, "new-master")
	}
	h.mgr.Close()
	h.pendingNode = nil // the new master lists the live nodes itself
	for _, id := range stopNodes {
		h.repo.del(nodeKey(id))
		delete(h.alive, id)
	}
	h.repo.drainAssigns()
	h.mgr = master.NewStateManager(context.Background(), h.repo, nil)
	for _, kv := range h.repo.list(constants.StorageLiveNodesPath) {
		h.do(&discovery.Event{Type: discovery.NodeStartup, Key: kv.Key, Value: kv.Value})
	}
	for _, kv := range h.repo.list(constants.DatabaseConfigPath) {
		h.do(&discovery.Event{Type: discovery.DatabaseConfigChanged, Key: kv.Key, Value: kv.Value})
	}
	for _, kv := range h.repo.list(constants.ShardAssignmentPath) {
		if cur, ok := h.repo.peek(kv.Key); ok {
			h.do(&discovery.Event{Type: discovery.ShardAssignmentChanged, Key: kv.Key, Value: cur})
		}
	}
}

// setDatabase creates the database, grows its shard count or just re-publishes its config.
func (h *harness) setDatabase(name string, shards, rf int) {
	h.trace = append(h.trace, fmt.Sprintf("db(%s,shards=%d,rf=%d)", name, shards, rf))
	cfg := &models.Database{Name: name, NumOfShard: shards, ReplicaFactor: rf}
	data, _ := json.Marshal(cfg)
	h.repo.set(constants.GetDatabaseConfigPath(name), data) // the broker stores the config
	h.do(&discovery.Event{Type: discovery.DatabaseConfigChanged, Key: constants.GetDatabaseConfigPath(name), Value: data})
	ref := h.published(name)
	if len(h.alive) >= rf && (ref == nil || len(ref.Shards) != shards) && h.opErr == nil {
		h.opErr = bad("placement", "db %s: %d shards requested with %d alive nodes and rf=%d, but the published assignment is %v", name, shards, len(h.alive), rf, ref)
	}
	if ref != nil {
		cfg.NumOfShard = len(ref.Shards)
		if old, ok := h.dbs[name]; ok && len(ref.Shards) == old.NumOfShard {
			cfg.ReplicaFactor = old.ReplicaFactor
		}
		h.dbs[name] = cfg
	}
}

func (h *harness) dropDatabase(name string) {
	h.trace = append(h.trace, fmt.Sprintf("drop(%s)", name))
	delete(h.dbs, name)
	delete(h.placed, name)
	// the broker removes config and assignment (app/broker/api/exec/command/schema.go)
	h.repo.del(constants.GetDatabaseConfigPath(name))
	h.repo.del(constants.GetDatabaseAssignPath(name))
	h.do(&discovery.Event{Type: discovery.DatabaseConfigDeletion, Key: constants.GetDatabaseConfigPath(name)})
}

func (h *harness) published(name string) *models.ShardAssignment {
	data, ok := h.repo.peek(constants.GetDatabaseAssignPath(name))
	if !ok {
		return nil
	}
	ref := &models.ShardAssignment{}
	if err := json.Unmarshal(data, ref); err != nil {
		return nil
	}
	return ref
}

func (h *harness) aliveList() (ids []models.NodeID) {
	for id := range h.alive {
		ids = append(ids, id)
	}
	sort.Slice(ids, func(i, j int) bool { return ids[i] < ids[j] })
	return
}

type violation struct {
	kind string // "placement" or "state"
	msg  string
}

func (v *violation) Error() string { return v.kind + ": " + v.msg }

func bad(kind, format string, args ...interface{}) error {
	return &violation{kind: kind, msg: fmt.Sprintf(format, args...)}
}

// check compares the published assignments and the reported storage state with the reference model.
func (h *harness) check() error {
	if h.opErr != nil {
		return h.opErr
	}
	st := h.mgr.GetStorageState()
	if len(st.LiveNodes) != len(h.alive) {
		return bad("state", "live nodes %d, want %d", len(st.LiveNodes), len(h.alive))
	}
	for id := range h.alive {
		if _, ok := st.LiveNodes[id]; !ok {
			return bad("state", "alive node %d is not reported live", id)
		}
	}
	names := make([]string, 0, len(h.dbs))
	for name := range h.dbs {
		names = append(names, name)
	}
	sort.Strings(names)
	// 1. placement of the published assignment
	for _, name := range names {
		cfg := h.dbs[name]
		ref := h.published(name)
		if ref == nil {
			return bad("placement", "db %s: no published assignment", name)
		}
		if len(ref.Shards) != cfg.NumOfShard {
			return bad("placement", "db %s: %d shards published, want %d", name, len(ref.Shards), cfg.NumOfShard)
		}
		if h.placed[name] == nil {
			h.placed[name] = map[models.ShardID]*placement{}
		}
		firstCount := map[models.NodeID]int{} // first replicas of the shards published by this event
		newShards := 0
		for id := 0; id < cfg.NumOfShard; id++ {
			shardID := models.ShardID(id)
			replicas, ok := ref.Shards[shardID]
			if !ok {
				return bad("placement", "db %s: shard %d missing from the published assignment", name, id)
			}
			if old, ok := h.placed[name][shardID]; ok {
				if fmt.Sprint(old.replicas) != fmt.Sprint(replicas.Replicas) {
					return bad("placement", "db %s shard %d was published on nodes %v and is now published on %v: an existing shard moved",
						name, id, old.replicas, replicas.Replicas)
				}
				continue
			}
			newShards++
			seen := map[models.NodeID]bool{}
			for _, r := range replicas.Replicas {
				if seen[r] {
					return bad("placement", "db %s shard %d: replicas %v are not distinct", name, id, replicas.Replicas)
				}
				if !h.alive[r] {
					return bad("placement", "db %s shard %d: replica %d of %v was not alive at creation", name, id, r, replicas.Replicas)
				}
				seen[r] = true
			}
			if len(replicas.Replicas) != cfg.ReplicaFactor {
				return bad("placement", "db %s shard %d: replicas %v, want %d of them", name, id, replicas.Replicas, cfg.ReplicaFactor)
			}
			firstCount[replicas.Replicas[0]]++
			h.placed[name][shardID] = &placement{replicas: append([]models.NodeID(nil), replicas.Replicas...)}
		}
		if newShards > 0 {
			minC, maxC := newShards, 0
			for id := range h.alive {
				c := firstCount[id]
				if c < minC {
					minC = c
				}
				if c > maxC {
					maxC = c
				}
			}
			if maxC-minC > 1 {
				return bad("placement", "db %s: first replicas of %d new shards are not round-robin over %v: %v", name, newShards, h.aliveList(), firstCount)
			}
		}
	}
	// 2. reported state of the existing databases
	for _, name := range names {
		cfg := h.dbs[name]
		ref := h.published(name)
		sa, shardStates := st.ShardAssignments[name], st.ShardStates[name]
		for id := 0; id < cfg.NumOfShard; id++ {
			shardID := models.ShardID(id)
			replicas := ref.Shards[shardID]
			anyAlive := false
			for _, r := range replicas.Replicas {
				anyAlive = anyAlive || h.alive[r]
			}
			ss, ok := shardStates[shardID]
			if !ok {
				// nothing reported for the shard = not reported online
				if anyAlive {
					return bad("state", "db %s shard %d (replicas %v, alive nodes %v) has a replica alive but the storage state has no state for it (so it is not reported online)",
						name, id, replicas.Replicas, h.aliveList())
				}
				continue
			}
			if sa == nil || sa.Shards[shardID] == nil || fmt.Sprint(sa.Shards[shardID].Replicas) != fmt.Sprint(replicas.Replicas) {
				return bad("state", "db %s shard %d was assigned to %v but the storage state lists a different assignment", name, id, replicas.Replicas)
			}
			if ss.ID != shardID || fmt.Sprint(ss.Replica.Replicas) != fmt.Sprint(replicas.Replicas) {
				return bad("state", "db %s shard %d was assigned to %v but its shard state says id=%d replicas=%v", name, id, replicas.Replicas, ss.ID, ss.Replica.Replicas)
			}
			online := ss.State == models.OnlineShard
			switch {
			case online && !anyAlive:
				return bad("state", "db %s shard %d (replicas %v, alive nodes %v) is reported ONLINE with leader %d but none of its replicas is alive",
					name, id, replicas.Replicas, h.aliveList(), ss.Leader)
			case !online && anyAlive:
				return bad("state", "db %s shard %d (replicas %v, alive nodes %v) is reported state=%d (not online) although a replica is alive",
					name, id, replicas.Replicas, h.aliveList(), ss.State)
			case online && (!h.alive[ss.Leader] || !replicas.Contain(ss.Leader)):
				return bad("state", "db %s shard %d (replicas %v, alive nodes %v) is online with leader %d which is not an alive replica",
					name, id, replicas.Replicas, h.aliveList(), ss.Leader)
			case !online && ss.Leader != models.NoLeader:
				return bad("state", "db %s shard %d is offline but still has leader %d", name, id, ss.Leader)
			}
		}
		if len(shardStates) > cfg.NumOfShard {
			return bad("state", "db %s: %d shard states reported, only %d shards exist", name, len(shardStates), cfg.NumOfShard)
		}
	}
	// 3. nothing may be reported for a database that does not exist
	var ghosts []string
	for name := range st.ShardStates {
		if _, ok := h.dbs[name]; !ok {
			ghosts = append(ghosts, name)
		}
	}
	sort.Strings(ghosts)
	for _, name := range ghosts {
		online := 0
		for _, ss := range st.ShardStates[name] {
			if ss.State == models.OnlineShard {
				online++
			}
		}
		return bad("state", "database %s does not exist (dropped) but the storage state still reports %d shards of it, %d of them ONLINE with a leader",
			name, len(st.ShardStates[name]), online)
	}
	for name := range st.ShardAssignments {
		if _, ok := h.dbs[name]; !ok {
			return bad("state", "database %s does not exist (dropped) but the storage state still lists its shard assignment", name)
		}
	}
	return nil
}
