#!/usr/bin/env bash
# one-off triage harness for F46 (not a registered check)
# exit 0 = nothing reported for the dropped database, exit 1 = the dropped database is back in the storage state
set -u
export GOFLAGS=-mod=mod GOPROXY=off GOSUMDB=off GOTOOLCHAIN=local TZ=UTC
ROOT="${1:-/repo}"; HERE="$(cd "$(dirname "$0")" && pwd)"
DEMO_DIR="$ROOT/zz_triage_f46"
cleanup() { rm -rf "$DEMO_DIR"; }
trap cleanup EXIT
mkdir -p "$DEMO_DIR"; cp "$HERE/main.go" "$HERE/harness.go" "$DEMO_DIR/"
cd "$ROOT" && timeout 300 go run ./zz_triage_f46 2>&1 | grep -E '^\[obs\]|^PASS|^FAIL|^panic|^HARNESS|\.go:[0-9]+:[0-9]+:' | head -20
exit ${PIPESTATUS[0]}
