#!/bin/sh
# usage: ./run.sh f1|f2|f4|f5|f7|f8   (one-off triage harness; not a registered check)
set -e
cd "$(dirname "$0")"
export GOFLAGS=-mod=mod GOPROXY=off GOSUMDB=off GOTOOLCHAIN=local
unset GOWORK
cp /repo/go.sum ./go.sum
go run "./$1" 2>&1 | grep -v "INFO\|WARN"
rm -f go.sum
