package main

// F36 triage (C02 / C01): store.CreateFamily looks the family up under the read lock, releases it, takes the write lock and
// goes straight to creating — without looking again.  Two concurrent CreateFamily(name) calls (every source family's rollup
// goroutine calls targetStore.CreateFamily for the same target family) both miss and both build a *family object for one
// family.  The objects share the family version but each has its own pendingOutputs set, so the obsolete-file cleanup run
// through one of them does not see the table the other one is writing, and store.close() only waits for the object that
// ended up in the map.
import (
	"fmt"
	"os"
	"path/filepath"
	"sync"

	v1 "github.com/lindb/lindb/index/v1"
	"github.com/lindb/lindb/kv"
)

func must(err error) {
	if err != nil {
		panic(err)
	}
}

func main() {
	root, _ := os.MkdirTemp("", "f36-")
	defer os.RemoveAll(root)
	s, err := kv.GetStoreManager().CreateStore(filepath.Join(root, "store"), kv.DefaultStoreOption())
	must(err)
	const rounds, workers = 300, 8
	dup := 0
	first := ""
	for r := 0; r < rounds; r++ {
		name := fmt.Sprintf("f%d", r)
		got := make([]kv.Family, workers)
		var wg sync.WaitGroup
		start := make(chan struct{})
		for w := 0; w < workers; w++ {
			wg.Add(1)
			go func(w int) {
				defer wg.Done()
				<-start
				f, err := s.CreateFamily(name, kv.FamilyOption{Merger: string(v1.IndexKVMerger)})
				must(err)
				got[w] = f
			}(w)
		}
		close(start)
		wg.Wait()
		objs := map[kv.Family]bool{}
		for _, f := range got {
			objs[f] = true
		}
		if len(objs) > 1 {
			dup++
			if first == "" {
				first = fmt.Sprintf("family %q: %d concurrent CreateFamily calls returned %d different family objects; store.GetFamily keeps one of them", name, workers, len(objs))
			}
		}
	}
	if dup > 0 {
		fmt.Println(first)
		fmt.Printf("FAIL: %d of %d families were created more than once\n", dup, rounds)
		os.Exit(1)
	}
	fmt.Printf("PASS: %d families, each created exactly once by %d concurrent callers\n", rounds, workers)
}
