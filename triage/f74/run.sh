#!/usr/bin/env bash
# one-off triage harness for F74 (not a registered check). exit 0 = an index reset excludes Sync, 1 = a stale Sync candidate is applied after the reset
# program by a seeding sub-agent (C06 observation O1, round 10; its O2-O4 lines are printed too but not judged here);
# the interleaving is forced through a demo-only file copied into pkg/queue and removed again
set -u
export GOFLAGS=-mod=mod GOPROXY=off GOSUMDB=off GOTOOLCHAIN=local
ROOT="${1:-/repo}"; HERE="$(cd "$(dirname "$0")" && pwd)"
trap 'rm -f "$ROOT/pkg/queue/zz_obs_c06.go"; rm -rf "$ROOT/zz_triage_f74"' EXIT
mkdir -p "$ROOT/zz_triage_f74"; cp "$HERE/zz_obs_c06.go.txt" "$ROOT/pkg/queue/zz_obs_c06.go"; cp "$HERE/main.go.txt" "$ROOT/zz_triage_f74/main.go"
OUT=$(cd "$ROOT" && timeout 300 go run ./zz_triage_f74 2>/dev/null | grep "^O1")
echo "$OUT"
case "$OUT" in *"VIOLATION reproduced"*) exit 1;; *"NOT reproduced"*) exit 0;; *) exit 2;; esac
