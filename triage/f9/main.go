package main

// F9 triage (C09): index readers take the family snapshot BEFORE reading the memory stores.
// A flush of the postings that completes in between moves entries from the immutable store into a
// NEWER snapshot: the reader sees them in neither place. createSeriesID (sequence cache miss) then
// computes max+1 from an incomplete posting list and hands out a series id that is already in use.
import (
	"bytes"
	"fmt"
	"os"
	"path/filepath"

	protoMetricsV1 "github.com/lindb/common/proto/gen/v1/linmetrics"

	"github.com/lindb/lindb/index"
	"github.com/lindb/lindb/models"
	"github.com/lindb/lindb/series/metric"
)

func row(host string) *metric.StorageRow {
	m := &protoMetricsV1.Metric{Name: "cpu.load", Namespace: "ns",
		Tags:         []*protoMetricsV1.KeyValue{{Key: "host", Value: host}},
		SimpleFields: []*protoMetricsV1.SimpleField{{Name: "f1", Type: protoMetricsV1.SimpleFieldType_DELTA_SUM, Value: 10}}}
	var ml protoMetricsV1.MetricList
	ml.Metrics = append(ml.Metrics, m)
	var buf bytes.Buffer
	if _, err := metric.NewProtoConverter(models.NewDefaultLimits()).MarshalProtoMetricListV1To(ml, &buf); err != nil {
		panic(err)
	}
	var br metric.StorageBatchRows
	br.UnmarshalRows(buf.Bytes())
	return br.Rows()[0]
}

func must(err error) {
	if err != nil {
		panic(err)
	}
}

func main() {
	dir, _ := os.MkdirTemp("", "f9-")
	defer os.RemoveAll(dir)
	metaDB, err := index.NewMetricMetaDatabase("demo", filepath.Join(dir, "meta"))
	must(err)
	indexDB, err := index.NewMetricIndexDatabase(filepath.Join(dir, "index"), metaDB)
	must(err)
	metricID, err := metaDB.GenMetricID([]byte("ns"), []byte("cpu.load"))
	must(err)
	ids := map[string]uint32{}
	gen := func(h string) {
		id, err := indexDB.GenSeriesID(metricID, row(h))
		must(err)
		ids[h] = id
		fmt.Printf("host=%s -> series id %d\n", h, id)
	}
	gen("a")
	gen("b")
	indexDB.PrepareFlush()
	must(indexDB.Flush()) // postings {0,1} persisted
	gen("c")
	gen("d")
	indexDB.PrepareFlush()                // {2,3} now in the immutable store, flush goroutine about to run
	index.DemoPurgeSequenceCache(indexDB) // the metric's cached sequence expired / was evicted
	fired := false
	index.DemoHookBitmapUnmarshal(func() {
		if !fired {
			fired = true
			fmt.Println("  [flush goroutine] metric postings flushed while a writer is between snapshot and memory read")
			must(index.DemoFlushMetricPostings(indexDB))
		}
	})
	gen("e")
	for h, id := range ids {
		if h != "e" && id == ids["e"] {
			fmt.Printf("FAIL: series host=e received id %d which is the id of series host=%s (two different tag sets share an id)\n", ids["e"], h)
			os.Exit(1)
		}
	}
	fmt.Println("PASS: new series got a fresh id")
}
