package main

// F25 triage (C01): a crash in the middle of appending a manifest record (the commit that was in flight, never
// acknowledged) leaves a torn final record.  (1) versionSet.recover treats it as corruption ("unexpected EOF") and the
// store can not be opened; (2) newStore's deferred cleanup runs the obsolete-file scans ALSO when the open failed, with the
// partially recovered state: it deletes the live manifest (CURRENT still names it) and every table the replay had not
// reached — the committed flushes are gone and no later open can succeed.
import (
	"encoding/binary"
	"fmt"
	"os"
	"path/filepath"
	"sort"
	"strings"

	v1 "github.com/lindb/lindb/index/v1"
	"github.com/lindb/lindb/kv"
)

func must(err error) {
	if err != nil {
		panic(err)
	}
}

func ls(dir string) string {
	var out []string
	_ = filepath.Walk(dir, func(p string, info os.FileInfo, err error) error {
		if err == nil && !info.IsDir() {
			r, _ := filepath.Rel(dir, p)
			out = append(out, r)
		}
		return nil
	})
	sort.Strings(out)
	return strings.Join(out, " ")
}

func main() {
	root, _ := os.MkdirTemp("", "f25-")
	defer os.RemoveAll(root)
	path := filepath.Join(root, "store")
	open := func() (kv.Store, error) { return kv.GetStoreManager().CreateStore(path, kv.DefaultStoreOption()) }
	s, err := open()
	must(err)
	f, err := s.CreateFamily("f", kv.FamilyOption{Merger: string(v1.IndexKVMerger)})
	must(err)
	flush := func(k uint32, v string) {
		fl := f.NewFlusher()
		must(fl.Add(k, []byte(v)))
		must(fl.Commit())
		fl.Release()
	}
	flush(1, "a")
	flush(2, "b")
	must(kv.GetStoreManager().CloseStore(path))
	fmt.Println("after two committed flushes and a clean close:", ls(path))

	// the crash: a third commit was being appended to the manifest when the process died -> torn final record
	cur, err := os.ReadFile(filepath.Join(path, "CURRENT"))
	must(err)
	manifest := filepath.Join(path, strings.TrimSpace(string(cur)))
	data, err := os.ReadFile(manifest)
	must(err)
	// find the last complete record and append the first part of a copy of it
	off, last := 0, 0
	for off < len(data) {
		n, w := binary.Uvarint(data[off:])
		last = off
		off += w + int(n)
	}
	torn := data[last : len(data)-3]
	must(os.WriteFile(manifest, append(append([]byte{}, data...), torn...), 0o644))
	fmt.Printf("crash image: %s grew by a torn record of %d bytes (complete record: %d bytes)\n", filepath.Base(manifest), len(torn), len(data)-last)

	bad := 0
	for attempt := 1; attempt <= 2; attempt++ {
		s, err = open()
		if err != nil {
			fmt.Printf("open #%d after the crash: ERROR %v\n", attempt, err)
			fmt.Println("   directory now:", ls(path))
			bad++
			continue
		}
		fam := s.GetFamily("f")
		for k, want := range map[uint32]string{1: "a", 2: "b"} {
			got := "<absent>"
			snap := fam.GetSnapshot()
			if err := snap.Load(k, func(v []byte) error { got = string(v); return nil }); err != nil {
				got = "ERROR " + err.Error()
			}
			snap.Close()
			if got != want {
				fmt.Printf("open #%d: committed key %d reads %s, want %q\n", attempt, k, got, want)
				bad++
			}
		}
		fmt.Printf("open #%d after the crash: ok, both committed keys readable\n", attempt)
		must(kv.GetStoreManager().CloseStore(path))
	}
	if bad > 0 {
		fmt.Println("FAIL: committed flushes do not survive a crash during the append of the next manifest record")
		os.Exit(1)
	}
	fmt.Println("PASS")
}
