// F32 triage (C09): indexKVStore.getOrCreateValue loads a dictionary bucket from the snapshot it took and puts it into
// bucketCache WITHOUT the store lock; Flush purges the cache under the lock.  A lookup that loaded the bucket from the OLD
// snapshot before a flush published and adds it AFTER the purge leaves a stale bucket in the cache: a later get-or-create
// of a name that this flush moved to disk misses in memory (immutable cleared), HITS the stale bucket (name absent),
// and createValue skips its persisted re-check because the snapshot did not change during THAT lookup -> a second id
// for a name that already has one.  (Scenario and wrapper written by the reporting sub-agent; the wrapper only delays a
// reader, no product code is touched.)
package main

import (
	"fmt"
	"os"
	"path/filepath"
	"sync/atomic"
	"time"

	"github.com/lindb/lindb/index"
	v1 "github.com/lindb/lindb/index/v1"
	"github.com/lindb/lindb/kv"
	"github.com/lindb/lindb/kv/version"
)

type hookSnap struct {
	version.Snapshot
	f *hookFamily
}

func (s *hookSnap) Load(key uint32, loader func(value []byte) error) error {
	err := s.Snapshot.Load(key, loader)
	if s.f.armed.CompareAndSwap(true, false) {
		close(s.f.loaded)
		<-s.f.resume
	}
	return err
}

type hookFamily struct {
	kv.Family
	armed  atomic.Bool
	loaded chan struct{}
	resume chan struct{}
}

func (f *hookFamily) GetSnapshot() version.Snapshot {
	return &hookSnap{Snapshot: f.Family.GetSnapshot(), f: f}
}

func must(err error) {
	if err != nil {
		panic(err)
	}
}

func main() {
	dir, _ := os.MkdirTemp("", "c09obs2-")
	defer os.RemoveAll(dir)
	kvStore, err := kv.GetStoreManager().CreateStore(filepath.Join(dir, "kv"), kv.DefaultStoreOption())
	must(err)
	realFamily, err := kvStore.CreateFamily("tv", kv.FamilyOption{Merger: string(v1.IndexKVMerger)})
	must(err)
	family := &hookFamily{Family: realFamily, loaded: make(chan struct{}), resume: make(chan struct{})}
	store := index.NewIndexKVStore(family, 100, time.Minute)
	var seq atomic.Uint32
	gen := func() (uint32, error) { return seq.Add(1) - 1, nil }
	id1, _, _ := store.GetOrCreateValue(7, []byte("host-1"), gen)
	store.PrepareFlush()
	must(store.Flush())
	family.armed.Store(true)
	done := make(chan struct{})
	go func() {
		// plain reader(query) of some other name of the same bucket
		_, ok, err := store.GetValue(7, []byte("zzz"))
		fmt.Println("reader: zzz found =", ok, err)
		close(done)
	}()
	<-family.loaded // reader has read the bucket of the old snapshot, not yet cached it
	id2, _, _ := store.GetOrCreateValue(7, []byte("host-2"), gen)
	fmt.Println("host-1", id1, "host-2", id2)
	store.PrepareFlush()
	must(store.Flush())
	close(family.resume)
	<-done
	id2b, isNew, _ := store.GetOrCreateValue(7, []byte("host-2"), gen)
	fmt.Println("after flush: host-2 ->", id2b, "isNew", isNew)
	if id2b != id2 {
		fmt.Println("VIOLATION on pristine tree: host-2 had id", id2, "now", id2b)
		os.Exit(1)
	}
	fmt.Println("ok")
}
