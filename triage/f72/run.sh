#!/usr/bin/env bash
# one-off triage harness for F72 (not a registered check). exit 0 = a failed postings read fails the id generation, 1 = it hands out id 0
# program by a seeding sub-agent (C09 observation O2, rounds 8-10); the read failure is injected through the package's own
# bitmapUnmarshal seam by a demo-only export file that is removed again
set -u
export GOFLAGS=-mod=mod GOPROXY=off GOSUMDB=off GOTOOLCHAIN=local
ROOT="${1:-/repo}"; HERE="$(cd "$(dirname "$0")" && pwd)"
DEMO="$ROOT/zz_triage_f72"; EXPORT="$ROOT/index/zz_export_demo.go"
trap 'rm -rf "$DEMO"; rm -f "$EXPORT"' EXIT
mkdir -p "$DEMO"; cp "$HERE/common.go.txt" "$DEMO/common.go"; cp "$HERE/main.go.txt" "$DEMO/main.go"; cp "$HERE/export.go.txt" "$EXPORT"
cd "$ROOT" && go run ./zz_triage_f72 2>&1 | grep -v "	INFO	" | tail -4
exit "${PIPESTATUS[0]}"
