#!/bin/sh
# one-off triage harness for F43 (not a registered check): needs a demo-only export file inside <root>
export GOFLAGS=-mod=mod GOPROXY=off GOSUMDB=off GOTOOLCHAIN=local TZ=UTC
HERE="$(cd "$(dirname "$0")" && pwd)"; ROOT="${1:-/repo}"
cleanup() { rm -f "$ROOT/kv/zz_export_demo.go"; rm -rf "$ROOT/zz_triage_f43"; }
trap cleanup EXIT
cp "$HERE/files/kv/zz_export_demo.go.txt" "$ROOT/kv/zz_export_demo.go"
mkdir -p "$ROOT/zz_triage_f43" && cp "$HERE"/main.go "$ROOT/zz_triage_f43/"
cd "$ROOT" && timeout 300 go run ./zz_triage_f43 2>&1 | grep -v '^20[0-9][0-9]-[0-9][0-9]-[0-9][0-9] \|^{'
