package main

// F43 triage (C04): (*compactJob).installCompactionResults drops the result of the target family's manifest commit, so a rollup whose
// output was never installed is reported as done: the source family deletes its needs-rollup marks and, later, the source files.
// (header of f39 follows; the scenario below injects ONE failing commit into the target family and runs the rollup twice)
// F39 text: registers a needs-rollup mark for every number in sf.outputs — also when the table
// builder held no key and was abandoned (no NewFile record, 0-byte file).  Since e7d231c (F24) doRollupWork no longer passes
// over marked files that are not in level 0; it builds a FileMeta for the phantom number and the job fails on the missing
// table.  All files waiting for the same target interval are in one job, so the healthy files fail with it on every pass:
// nothing of that source family ever reaches the target.
//
// Layout as tsdb creates it (borrowed from a seeding sub-agent's demonstration): <root>/day/20240115 source store (10s),
// <root>/month/202401 target store (5m).  Public kv API only.
import (
	"fmt"
	"os"
	"path/filepath"
	"strconv"
	"time"

	"github.com/lindb/lindb/kv"
	"github.com/lindb/lindb/pkg/timeutil"
)

type concatMerger struct{ flusher kv.Flusher }

func (m *concatMerger) Init(_ map[string]interface{}) {}
func (m *concatMerger) Merge(key uint32, values [][]byte) error {
	var out []byte
	for _, v := range values {
		out = append(out, v...)
	}
	return m.flusher.Add(key, out)
}

func fatal(format string, args ...interface{}) {
	fmt.Printf("FAIL: "+format+"\n", args...)
	os.Exit(1)
}

func main() {
	dir, err := os.MkdirTemp("", "f43")
	if err != nil {
		fatal("%v", err)
	}
	defer os.RemoveAll(dir)
	kv.RegisterMerger("demo_concat", func(fl kv.Flusher) (kv.Merger, error) { return &concatMerger{flusher: fl}, nil })

	sourceInterval := timeutil.Interval(10 * 1000)
	targetInterval := timeutil.Interval(5 * 60 * 1000)
	const segment, sourceFamilyName = "20240115", "10"
	segTime, err := sourceInterval.Calculator().ParseSegmentTime(segment)
	if err != nil {
		fatal("%v", err)
	}
	familyStart := sourceInterval.Calculator().CalcFamilyStartTime(segTime, 10)
	tCalc := targetInterval.Calculator()
	targetFamilyName := strconv.Itoa(tCalc.CalcFamily(familyStart, tCalc.CalcSegmentTime(familyStart)))
	sourcePath := filepath.Join(dir, sourceInterval.Type().String(), segment)
	targetPath := filepath.Join(dir, targetInterval.Type().String(), tCalc.GetSegment(familyStart))
	sourceOption := kv.DefaultStoreOption()
	sourceOption.Source = sourceInterval
	sourceOption.Rollup = []timeutil.Interval{targetInterval}
	targetOption := kv.DefaultStoreOption()
	targetOption.Source = targetInterval
	familyOption := kv.FamilyOption{Merger: "demo_concat", CompactThreshold: 4}

	mgr := kv.GetStoreManager()
	target, err := mgr.CreateStore(targetPath, targetOption)
	if err != nil {
		fatal("create target store: %v", err)
	}
	source, err := mgr.CreateStore(sourcePath, sourceOption)
	if err != nil {
		fatal("create source store: %v", err)
	}
	sf, err := source.CreateFamily(sourceFamilyName, familyOption)
	if err != nil {
		fatal("create family: %v", err)
	}

	// ten real keys
	fl := sf.NewFlusher()
	for k := uint32(1); k <= 10; k++ {
		if err := fl.Add(k, []byte(fmt.Sprintf("v%d;", k))); err != nil {
			fatal("add: %v", err)
		}
	}
	if err := fl.Commit(); err != nil {
		fatal("flush commit: %v", err)
	}
	fl.Release()
	// the target family exists already; the manifest commit of its next edit log (the rollup output) fails once, as a disk error would
	tfam, err := target.CreateFamily(targetFamilyName, familyOption)
	if err != nil {
		fatal("create target family: %v", err)
	}
	kv.DemoFailNextCommit(tfam)
	phantom := 0

	// two rollup passes
	for pass := 1; pass <= 2; pass++ {
		source.ForceRollup()
		deadline := time.Now().Add(5 * time.Second)
		for time.Now().Before(deadline) {
			s := sf.GetSnapshot()
			n := len(s.GetCurrent().GetRollupFiles())
			s.Close()
			if n == 0 {
				break
			}
			time.Sleep(20 * time.Millisecond)
		}
	}
	s := sf.GetSnapshot()
	left := len(s.GetCurrent().GetRollupFiles())
	s.Close()
	found := 0
	if tf := target.GetFamily(targetFamilyName); tf != nil {
		ts := tf.GetSnapshot()
		for k := uint32(1); k <= 10; k++ {
			_ = ts.Load(k, func(v []byte) error {
				if len(v) > 0 {
					found++
				}
				return nil
			})
		}
		ts.Close()
	}
	fmt.Printf("after a failed target commit and two rollup passes: %d file(s) still waiting for rollup, target family holds %d of the 10 flushed keys\n", left, found)
	if phantom > 0 || left > 0 || found != 10 {
		fmt.Println("FAIL: the flushed keys never reach the rollup target")
		os.Exit(1)
	}
	fmt.Println("PASS")
}
