// F29 triage (C04).  Same harness as f23.  Two files of ONE source family are pending at one rollup; the first flushed file holds
// source slots 15..29, the second (late data) slots 0..14 — all of them fall into one 5m slot and one 1h slot.  For a Last
// field the target must hold the value of source slot 29, for a First field the value of slot 0.
// aggregation.DownSamplingMultiSeriesInto folds the input blocks one after the other with Aggregate(acc, v) — Last = v,
// First = acc — i.e. "the last / first BLOCK wins", and the order of the blocks comes from a Go map iteration
// (doRollupWork: for fileNumber := range targetFiles): the result differs from run to run and between the two targets.
package main

import (
	"fmt"
	"math"
	"os"
	"path/filepath"
	"sort"
	"strconv"
	"time"

	"github.com/lindb/lindb/kv"
	"github.com/lindb/lindb/pkg/bit"
	"github.com/lindb/lindb/pkg/encoding"
	"github.com/lindb/lindb/pkg/timeutil"
	"github.com/lindb/lindb/series/field"
	"github.com/lindb/lindb/tsdb/tblstore/metricsdata"
)

const (
	second = int64(1000)
	minute = 60 * second
	hour   = 60 * minute
	day    = 24 * hour
)

var (
	srcInterval   = timeutil.Interval(10 * second)
	monthInterval = timeutil.Interval(5 * minute)
	yearInterval  = timeutil.Interval(hour)
	targets       = []timeutil.Interval{monthInterval, yearInterval}

	// metric 10 has three fields, metric 11 is a single field metric (e.g. a plain counter)
	multiFields = field.Metas{
		{ID: 1, Type: field.SumField},
		{ID: 2, Type: field.MinField},
		{ID: 3, Type: field.MaxField},
	}
	singleField = field.Metas{
		{ID: 1, Type: field.SumField},
	}
	lastFirst = field.Metas{
		{ID: 1, Type: field.LastField},
		{ID: 2, Type: field.FirstField},
	}
	metrics = map[uint32]field.Metas{10: multiFields, 11: singleField, 12: lastFirst}
	modelTS = map[key]int64{}
)

// key identifies one value of a target interval.
type key struct {
	metric      uint32
	interval    timeutil.Interval
	familyStart int64
	series      uint32
	fieldID     field.ID
	slot        uint16
}

func (k key) String() string {
	return fmt.Sprintf("metric=%d target=%s family=%s series=%d field=%d slot=%d",
		k.metric, k.interval, time.UnixMilli(k.familyStart).UTC().Format("2006-01-02T15"), k.series, k.fieldID, k.slot)
}

func agg(t field.Type, a, b float64) float64 {
	switch t {
	case field.MinField:
		return math.Min(a, b)
	case field.MaxField:
		return math.Max(a, b)
	default:
		return a + b
	}
}

type harness struct {
	root   string
	model  map[key]float64
	stores map[string]kv.Store
}

func (h *harness) base() string { return filepath.Join(h.root, "db", "shard", "1", "segment") }

func (h *harness) storeName(interval timeutil.Interval, ts int64) string {
	return filepath.Join(h.base(), interval.Type().String(), interval.Calculator().GetSegment(ts))
}

func (h *harness) open(interval timeutil.Interval, ts int64) kv.Store {
	name := h.storeName(interval, ts)
	if s, ok := h.stores[name]; ok {
		return s
	}
	opt := kv.DefaultStoreOption()
	if interval == srcInterval {
		opt.Rollup = targets
		opt.Source = srcInterval
	}
	s, err := kv.GetStoreManager().CreateStore(name, opt)
	must(err)
	h.stores[name] = s
	return s
}

func (h *harness) closeAll() {
	for name := range h.stores {
		must(kv.GetStoreManager().CloseStore(name))
	}
	h.stores = make(map[string]kv.Store)
}

// flush writes one sst file into the source family containing ts (the family start time),
// values: series -> source slot -> base value (each field gets a value derived from it).
func (h *harness) flush(familyStart int64, metricID uint32, values map[uint32]map[uint16]float64) {
	fields := metrics[metricID]
	src := h.open(srcInterval, familyStart)
	for _, t := range targets {
		h.open(t, familyStart) // like tsdb.shard.GetOrCrateDataFamily: target segments exist
	}
	calc := srcInterval.Calculator()
	fName := strconv.Itoa(calc.CalcFamily(familyStart, calc.CalcSegmentTime(familyStart)))
	fam, err := src.CreateFamily(fName, kv.FamilyOption{Merger: string(metricsdata.MetricDataMerger)})
	must(err)

	rng := timeutil.SlotRange{Start: math.MaxUint16, End: 0}
	var seriesIDs []uint32
	for s, m := range values {
		seriesIDs = append(seriesIDs, s)
		for slot := range m {
			if slot < rng.Start {
				rng.Start = slot
			}
			if slot > rng.End {
				rng.End = slot
			}
		}
	}
	sort.Slice(seriesIDs, func(i, j int) bool { return seriesIDs[i] < seriesIDs[j] })

	kvFlusher := fam.NewFlusher()
	defer kvFlusher.Release()
	fl, err := metricsdata.NewFlusher(kvFlusher)
	must(err)
	fl.PrepareMetric(metricID, fields)
	for _, sid := range seriesIDs {
		for fIdx, f := range fields {
			enc := encoding.NewTSDEncoder(rng.Start)
			for slot := rng.Start; slot <= rng.End; slot++ {
				if v, ok := values[sid][slot]; ok {
					fv := v + float64(fIdx)*1000
					enc.AppendTime(bit.One)
					enc.AppendValue(math.Float64bits(fv))
					h.addModel(familyStart, metricID, sid, f, slot, fv)
				} else {
					enc.AppendTime(bit.Zero)
				}
			}
			data, err := enc.BytesWithoutTime()
			must(err)
			must(fl.FlushField(data))
		}
		must(fl.FlushSeries(sid))
	}
	must(fl.CommitMetric(rng))
	must(fl.Close())
	fmt.Printf("  flushed file: metric %d source family %s slots [%d,%d] series %v\n",
		metricID, time.UnixMilli(familyStart).UTC().Format("2006-01-02T15"), rng.Start, rng.End, seriesIDs)
}

// addModel computes (independently of the code under test, process runs in UTC) where a source point must land.
func (h *harness) addModel(familyStart int64, metricID uint32, sid uint32, f field.Meta, slot uint16, v float64) {
	ts := familyStart + int64(slot)*srcInterval.Int64()
	t := time.UnixMilli(ts).UTC()
	dayStart := time.Date(t.Year(), t.Month(), t.Day(), 0, 0, 0, 0, time.UTC).UnixMilli()
	monthStart := time.Date(t.Year(), t.Month(), 1, 0, 0, 0, 0, time.UTC).UnixMilli()
	for _, k := range []key{
		{metricID, monthInterval, dayStart, sid, f.ID, uint16((ts - dayStart) / monthInterval.Int64())},
		{metricID, yearInterval, monthStart, sid, f.ID, uint16((ts - monthStart) / yearInterval.Int64())},
	} {
		old, ok := h.model[k]
		switch {
		case !ok:
			h.model[k] = v
			modelTS[k] = ts
		case f.Type == field.LastField:
			if ts >= modelTS[k] {
				h.model[k] = v
				modelTS[k] = ts
			}
		case f.Type == field.FirstField:
			if ts <= modelTS[k] {
				h.model[k] = v
				modelTS[k] = ts
			}
		default:
			h.model[k] = agg(f.Type, old, v)
		}
	}
}

// rollup triggers rollup for all open source stores and waits until background jobs are done.
func (h *harness) rollup() {
	for _, s := range h.stores {
		if len(s.Option().Rollup) == 0 {
			continue
		}
		s.ForceRollup()
		for _, name := range s.ListFamilyNames() {
			kv.DemoWaitFamily(s.GetFamily(name))
		}
	}
}

// actual reads back every target family.
func (h *harness) actual() map[key]float64 {
	rs := make(map[key]float64)
	for name, s := range h.stores {
		if len(s.Option().Rollup) > 0 {
			continue
		}
		interval := monthInterval
		if filepath.Base(filepath.Dir(name)) == timeutil.Year.String() {
			interval = yearInterval
		}
		calc := interval.Calculator()
		segTime, err := calc.ParseSegmentTime(filepath.Base(name))
		must(err)
		for _, fName := range s.ListFamilyNames() {
			fTime, err := strconv.Atoi(fName)
			must(err)
			familyStart := calc.CalcFamilyStartTime(segTime, fTime)
			snapshot := s.GetFamily(fName).GetSnapshot()
			for metricID, fields := range metrics {
				types := map[field.ID]field.Type{}
				for _, f := range fields {
					types[f.ID] = f.Type
				}
				must(snapshot.Load(metricID, func(block []byte) error {
					_, points, err := metricsdata.DemoDecodeBlock(block)
					if err != nil {
						return err
					}
					for _, p := range points {
						k := key{metricID, interval, familyStart, p.SeriesID, p.FieldID, p.Slot}
						if old, ok := rs[k]; ok {
							rs[k] = agg(types[p.FieldID], old, p.Value)
						} else {
							rs[k] = p.Value
						}
					}
					return nil
				}))
			}
			snapshot.Close()
		}
	}
	return rs
}

func (h *harness) check(step string) bool {
	act := h.actual()
	var problems []string
	for k, want := range h.model {
		got, ok := act[k]
		switch {
		case !ok:
			problems = append(problems, fmt.Sprintf("MISSING  %s want=%v", k, want))
		case got != want:
			problems = append(problems, fmt.Sprintf("WRONG    %s want=%v got=%v", k, want, got))
		}
	}
	for k, got := range act {
		if _, ok := h.model[k]; !ok {
			problems = append(problems, fmt.Sprintf("SPURIOUS %s got=%v", k, got))
		}
	}
	sort.Strings(problems)
	if len(problems) == 0 {
		fmt.Printf("  check after %q: OK (%d target values)\n", step, len(h.model))
		return true
	}
	fmt.Printf("  check after %q: FAILED, %d problem(s):\n", step, len(problems))
	for i, p := range problems {
		if i == 60 {
			fmt.Printf("    ... %d more\n", len(problems)-i)
			break
		}
		fmt.Println("    " + p)
	}
	return false
}

func must(err error) {
	if err != nil {
		fmt.Println("demo infrastructure error:", err)
		os.Exit(2)
	}
}

func ts(y int, m time.Month, d, h int) int64 {
	return time.Date(y, m, d, h, 0, 0, 0, time.UTC).UnixMilli()
}

// seq builds slot->value for [from,to].
func seq(from, to uint16, base float64) map[uint16]float64 {
	rs := make(map[uint16]float64)
	for s := from; s <= to; s++ {
		rs[s] = base + float64(s)
	}
	return rs
}

func main() {
	time.Local = time.UTC
	type sv = map[uint32]map[uint16]float64
	wrong := 0
	const rounds = 12
	for round := 0; round < rounds; round++ {
		root, err := os.MkdirTemp("", "f29-")
		must(err)
		h := &harness{root: root, model: make(map[key]float64), stores: make(map[string]kv.Store)}
		for k := range modelTS {
			delete(modelTS, k)
		}
		t := ts(2019, 7, 2, 5)
		h.flush(t, 12, sv{1: seq(15, 29, 100)})
		h.flush(t, 12, sv{1: seq(0, 14, 200)})
		h.rollup()
		if !h.check(fmt.Sprintf("round %d", round)) {
			wrong++
		}
		h.closeAll()
		os.RemoveAll(root)
	}
	fmt.Printf("%d of %d rounds wrong\n", wrong, rounds)
	if wrong > 0 {
		fmt.Println("FAIL: the rolled-up Last/First value depends on the order in which the source files reach the merger")
		os.Exit(1)
	}
	fmt.Println("PASS")
}
