#!/usr/bin/env bash
# one-off triage harness for F44 (not a registered check)
# exit 0 = the failed family write is reported, exit 1 = batch acknowledged although rows were dropped
set -u
export GOFLAGS=-mod=mod GOPROXY=off GOSUMDB=off GOTOOLCHAIN=local TZ=UTC
ROOT="${1:-/repo}"; HERE="$(cd "$(dirname "$0")" && pwd)"
DEMO_DIR="$ROOT/zz_triage_f44"
cleanup() { rm -rf "$DEMO_DIR" "$ROOT/replica/zz_export_demo.go"; }
trap cleanup EXIT
mkdir -p "$DEMO_DIR"; cp "$HERE/main.go" "$DEMO_DIR/"; cp "$HERE/zz_export_demo.go.txt" "$ROOT/replica/zz_export_demo.go"
cd "$ROOT" && timeout 300 go run ./zz_triage_f44 2>&1 | grep -E '^\[obs\]|^PASS|^FAIL|^panic|\.go:'
exit ${PIPESTATUS[0]}
