// F44 triage: a batch with rows of two families of one shard; the family channel of the EARLIER family refuses the write,
// the later one accepts. databaseChannel.Write must report the failure (the rows of the first family are dropped).
package main

import (
	"context"
	"fmt"
	"os"
	"time"

	protoMetricsV1 "github.com/lindb/common/proto/gen/v1/linmetrics"

	"github.com/lindb/lindb/models"
	"github.com/lindb/lindb/pkg/option"
	"github.com/lindb/lindb/pkg/timeutil"
	"github.com/lindb/lindb/replica"
	"github.com/lindb/lindb/series/metric"
)

func main() {
	now := time.Now().UnixMilli()
	hour := int64(3600 * 1000)
	t1 := now/hour*hour - hour + 1000 // previous hour
	t2 := now/hour*hour + 1000        // this hour
	conv := metric.NewProtoConverter(models.NewDefaultLimits())
	batch := metric.NewBrokerBatchRows()
	for i, ts := range []int64{t1, t1, t2} {
		m := &protoMetricsV1.Metric{
			Name: "cpu", Timestamp: ts,
			Tags:         []*protoMetricsV1.KeyValue{{Key: "host", Value: "h"}},
			SimpleFields: []*protoMetricsV1.SimpleField{{Name: "f", Type: protoMetricsV1.SimpleFieldType_DELTA_SUM, Value: float64(i + 1)}},
		}
		if err := batch.TryAppend(func(row *metric.BrokerRow) error { return conv.ConvertTo(m, row) }); err != nil {
			panic(err)
		}
	}
	db := models.Database{Name: "db", Option: &option.DatabaseOption{
		Intervals: option.Intervals{{Interval: timeutil.Interval(10 * 1000), Retention: timeutil.Interval(30 * 24 * hour)}},
		Behind:    "2h", Ahead: "2h",
	}}
	first := int64(-1)
	failed, accepted := 0, 0
	ch, restore := replica.DemoDatabaseChannel(db, 1,
		func(familyTime int64) bool {
			if first < 0 {
				first = familyTime
			}
			return familyTime == first
		},
		func(familyTime int64, rows int, err error) {
			fmt.Printf("[obs] family %s: %d row(s) -> %v\n", time.UnixMilli(familyTime).UTC().Format("15:04"), rows, err)
			if err != nil {
				failed += rows
			} else {
				accepted += rows
			}
		})
	defer restore()
	err := ch.Write(context.Background(), batch)
	fmt.Printf("[obs] databaseChannel.Write: %d row(s) refused, %d accepted, returned err=%v\n", failed, accepted, err)
	if failed > 0 && err == nil {
		fmt.Println("FAIL: rows were dropped and the batch was acknowledged as written")
		os.Exit(1)
	}
	fmt.Println("PASS: the failure of a family write is reported")
}
