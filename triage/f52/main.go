// F52 triage (C10): stress program written by a seeding sub-agent (C10 observation O1, round 8); exported API only.
// exit 1 = an equals look-up of an EXISTING tag value answered "absent" while the dictionary flush completed.
package main

import (
	"fmt"
	"os"
	"path"
	"sync"
	"sync/atomic"
	"time"

	"github.com/lindb/lindb/index"
	"github.com/lindb/lindb/series/tag"
	"github.com/lindb/lindb/sql/stmt"
)

func main() {
	dir, _ := os.MkdirTemp("", "zz_obs")
	defer os.RemoveAll(dir)
	metaDB, err := index.NewMetricMetaDatabase("zzobs", path.Join(dir, "meta"))
	if err != nil {
		panic(err)
	}
	defer metaDB.Close()
	tagKeyID := tag.KeyID(7)
	var misses, lookups int64
	for round := 0; round < 400; round++ {
		value := fmt.Sprintf("value-%d", round)
		id, _ := metaDB.GenTagValueID(tagKeyID, []byte(value))
		metaDB.PrepareFlush()
		stop := make(chan struct{})
		var wg sync.WaitGroup
		for r := 0; r < 8; r++ {
			wg.Add(1)
			go func() {
				defer wg.Done()
				for {
					select {
					case <-stop:
						return
					default:
					}
					ids, _ := metaDB.FindTagValueDsByExpr(tagKeyID, &stmt.EqualsExpr{Key: "k", Value: value})
					atomic.AddInt64(&lookups, 1)
					if !ids.Contains(id) && atomic.AddInt64(&misses, 1) <= 3 {
						fmt.Printf("round %d: equals lookup of existing value %q(id=%d) returned %v\n", round, value, id, ids.ToArray())
					}
				}
			}()
		}
		time.Sleep(200 * time.Microsecond)
		_ = metaDB.Flush()
		time.Sleep(200 * time.Microsecond)
		close(stop)
		wg.Wait()
	}
	fmt.Printf("lookups=%d misses=%d\n", lookups, misses)
	if misses > 0 {
		fmt.Println("FAIL: an existing tag value was reported absent while its dictionary was flushed")
		os.Exit(1)
	}
	fmt.Println("PASS")
}
