package main

import (
	"bytes"
	"fmt"
	"os"
	"sync"

	"github.com/lindb/lindb/pkg/queue"
)

func main() {
	dir, _ := os.MkdirTemp("", "f1")
	defer os.RemoveAll(dir)
	violations := 0
	rounds := 400
	for r := 0; r < rounds; r++ {
		q, err := queue.NewQueue(dir, 0)
		if err != nil {
			panic(err)
		}
		var wg sync.WaitGroup
		start := make(chan struct{})
		for g := 0; g < 2; g++ {
			wg.Add(1)
			go func(g int) {
				defer wg.Done()
				<-start
				p := bytes.Repeat([]byte{byte('a' + g)}, 5000+g*3000)
				if err := q.Put(p); err != nil {
					panic(err)
				}
			}(g)
		}
		close(start)
		wg.Wait()
		last := q.AppendedSeq()
		d1, _ := q.Get(last - 1)
		d2, _ := q.Get(last)
		b1 := append([]byte(nil), d1...)
		b2 := append([]byte(nil), d2...)
		q.Close()
		q2, err := queue.NewQueue(dir, 0)
		if err != nil {
			panic(err)
		}
		if err := q2.Put(bytes.Repeat([]byte{'#'}, 4000)); err != nil {
			panic(err)
		}
		a1, _ := q2.Get(last - 1)
		a2, _ := q2.Get(last)
		if !bytes.Equal(a1, b1) || !bytes.Equal(a2, b2) {
			violations++
			if violations == 1 {
				fmt.Printf("round %d: seq %d/%d changed after reopen + one append: before=%c.. after=%c..(len %d)\n",
					r, last-1, last, b1[0], a1[0], len(a1))
			}
		}
		q2.Close()
	}
	fmt.Printf("rounds=%d violations=%d\n", rounds, violations)
}
