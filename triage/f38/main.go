package main

// F38 triage (C16): the per-metric limits are applied per wire format by three separate functions.  Protobuf
// (validateMetric) and flat (rebuild) refuse a metric with more tags than limits.MaxTagsPerMetric; the line-protocol parser
// checks tag key / value length and the field count but never the tag count, so the same metric is stored with all its tags
// when it arrives as line protocol and rejected as a whole in the other two formats.
import (
	"bytes"
	"fmt"
	"net/http"
	"os"
	"strings"

	protoMetricsV1 "github.com/lindb/common/proto/gen/v1/linmetrics"

	"github.com/lindb/lindb/ingestion/influx"
	"github.com/lindb/lindb/ingestion/proto"
	"github.com/lindb/lindb/models"
)

func main() {
	limits := models.NewDefaultLimits() // MaxTagsPerMetric = 32
	const n = 37
	var sb strings.Builder
	sb.WriteString("cpu")
	m := &protoMetricsV1.Metric{Name: "cpu", Timestamp: 0, SimpleFields: []*protoMetricsV1.SimpleField{{Name: "value", Type: protoMetricsV1.SimpleFieldType_LAST, Value: 1}}}
	for i := 0; i < n; i++ {
		sb.WriteString(fmt.Sprintf(",k%03d=v", i))
		m.Tags = append(m.Tags, &protoMetricsV1.KeyValue{Key: fmt.Sprintf("k%03d", i), Value: "v"})
	}
	sb.WriteString(" value=1\n")

	req, _ := http.NewRequest(http.MethodPost, "http://x/write", bytes.NewBufferString(sb.String()))
	ib, ierr := influx.Parse(req, nil, "ns", limits)
	influxRows := 0
	if ib != nil {
		influxRows = ib.Len()
	}
	ml := &protoMetricsV1.MetricList{Metrics: []*protoMetricsV1.Metric{m}}
	data, _ := ml.Marshal()
	preq, _ := http.NewRequest(http.MethodPost, "http://x/write", bytes.NewBuffer(data))
	pb, perr := proto.Parse(preq, nil, "ns", limits)
	protoRows := 0
	if pb != nil {
		protoRows = pb.Len()
	}
	fmt.Printf("metric with %d tags, MaxTagsPerMetric=%d\n", n, limits.MaxTagsPerMetric)
	fmt.Printf("  line protocol: accepted rows=%d err=%v\n", influxRows, ierr)
	fmt.Printf("  protobuf     : accepted rows=%d err=%v\n", protoRows, perr)
	if influxRows != protoRows {
		fmt.Println("FAIL: whether the metric is accepted depends on the wire format")
		os.Exit(1)
	}
	fmt.Println("PASS: both formats agree")
}
