package main

import (
	"fmt"
	"os"
	"sync"

	"github.com/lindb/lindb/index"
	"github.com/lindb/lindb/series/field"
	"github.com/lindb/lindb/series/metric"
)

func main() {
	dir, _ := os.MkdirTemp("", "f2")
	defer os.RemoveAll(dir)
	db, err := index.NewMetricMetaDatabase("db", dir)
	if err != nil {
		panic(err)
	}
	const names = 3000
	disagree := 0
	seen := map[metric.ID]string{}
	shared := 0
	for i := 0; i < names; i++ {
		name := []byte(fmt.Sprintf("metric-%d", i))
		var ids [2]metric.ID
		var wg sync.WaitGroup
		start := make(chan struct{})
		for g := 0; g < 2; g++ {
			wg.Add(1)
			go func(g int) {
				defer wg.Done()
				<-start
				id, err := db.GenMetricID([]byte("ns"), name)
				if err != nil {
					panic(err)
				}
				ids[g] = id
			}(g)
		}
		close(start)
		wg.Wait()
		if ids[0] != ids[1] {
			disagree++
			if disagree == 1 {
				fmt.Printf("name %q: caller A got id %d, caller B got id %d\n", name, ids[0], ids[1])
			}
		}
		for _, id := range ids {
			if n, ok := seen[id]; ok && n != string(name) {
				shared++
			}
			seen[id] = string(name)
		}
	}
	fmt.Printf("F2: names=%d, names whose two concurrent creators got different ids: %d, ids shared by two names: %d\n", names, disagree, shared)

	// F3: field id (meta goroutine) vs tag key id (shard goroutine) on a brand-new metric
	dupField := 0
	for i := 0; i < names; i++ {
		mid := metric.ID(100000 + i)
		var wg sync.WaitGroup
		start := make(chan struct{})
		var fa field.ID
		wg.Add(2)
		go func() {
			defer wg.Done()
			<-start
			fa, _ = db.GenFieldID(mid, field.Meta{Name: "a", Type: field.SumField})
		}()
		go func() {
			defer wg.Done()
			<-start
			_, _ = db.GenTagKeyID(mid, []byte("host"))
		}()
		close(start)
		wg.Wait()
		fb, _ := db.GenFieldID(mid, field.Meta{Name: "b", Type: field.SumField})
		if fa == fb {
			dupField++
			if dupField == 1 {
				fmt.Printf("metric %d: field a -> id %d, field b -> id %d (two names, one id)\n", mid, fa, fb)
			}
		}
	}
	fmt.Printf("F3: metrics=%d, metrics where two different fields share an id: %d\n", names, dupField)
	_ = db.Close()
}
