package main

// F50 triage (C20): model.mergedIterator (TrieBucket.Suggest: ordered prefix enumeration over the tries of one bucket) keeps
// PrefixIterator.Key() in its heap items and then advances the iterator; Key() returns the iterator's own buffer, which Next()
// rewrites in place, so the queued key silently turns into (part of) the NEXT key: the enumeration repeats, drops and invents keys.
// exit 0 = Suggest enumerates exactly the sorted keys with the prefix; exit 1 = it does not.
import (
	"bytes"
	"fmt"
	"os"
	"sort"
	"strings"

	"github.com/lindb/lindb/index/model"
)

func build(keys ...string) []byte {
	var ks [][]byte
	var ids []uint32
	for i, k := range keys {
		ks = append(ks, []byte(k))
		ids = append(ids, uint32(i))
	}
	var buf bytes.Buffer
	if err := model.NewTrieBucketBuilder(100, &buf).Write(ks, ids); err != nil {
		panic(err)
	}
	return buf.Bytes()
}

func main() {
	bad := 0
	check := func(name string, tb *model.TrieBucket, all []string, prefix string) {
		var want []string
		for _, k := range all {
			if strings.HasPrefix(k, prefix) {
				want = append(want, k)
			}
		}
		sort.Strings(want)
		got := tb.Suggest(prefix, 100)
		st := "ok"
		if fmt.Sprint(got) != fmt.Sprint(want) {
			st = "WRONG"
			bad++
		}
		fmt.Printf("[obs] %s Suggest(%q) = %v want %v: %s\n", name, prefix, got, want, st)
	}
	all := []string{"aa", "ab", "ac", "b", "host-1", "host-2", "host-3"}
	one := model.NewTrieBucket()
	_ = one.Unmarshal(build(all...))
	check("one trie", one, all, "")
	check("one trie", one, all, "host")
	two := model.NewTrieBucket()
	_ = two.Unmarshal(build("aa", "ac", "host-1", "host-3"))
	_ = two.Unmarshal(build("ab", "b", "host-2"))
	check("two tries", two, all, "")
	check("two tries", two, all, "h")
	if bad > 0 {
		fmt.Printf("FAIL: %d prefix enumerations differ from the sorted map\n", bad)
		os.Exit(1)
	}
	fmt.Println("PASS: prefix enumeration equals the sorted map")
}
