#!/usr/bin/env bash
# one-off triage harness for F50 (not a registered check). exit 0 = Suggest equals the sorted map, 1 = it does not
set -u
export GOFLAGS=-mod=mod GOPROXY=off GOSUMDB=off GOTOOLCHAIN=local
ROOT="${1:-/repo}"; HERE="$(cd "$(dirname "$0")" && pwd)"
DEMO_DIR="$ROOT/zz_triage_f50"
trap 'rm -rf "$DEMO_DIR"' EXIT
mkdir -p "$DEMO_DIR"; cp "$HERE/main.go" "$DEMO_DIR/"
cd "$ROOT" && go run ./zz_triage_f50/
