#!/usr/bin/env bash
# one-off triage harness for F55 (not a registered check); programs written by a seeding sub-agent (C03 observations, round 8).
# usage: run.sh [repo-root] [appear|disappear|stuck|split|inf]   (F55 = appear, disappear, stuck); exit 1 = violation
set -u
ROOT="$(cd "${1:-/repo}" && pwd)"; HERE="$(cd "$(dirname "$0")" && pwd)"
export GOFLAGS=-mod=mod GOPROXY=off GOSUMDB=off GOTOOLCHAIN=local
cleanup() { rm -rf "$ROOT/zz_triage_f55"; }
trap cleanup EXIT
mkdir -p "$ROOT/zz_triage_f55"
cp "$HERE/main.go.txt" "$ROOT/zz_triage_f55/main.go"; cp "$HERE/harness.go.txt" "$ROOT/zz_triage_f55/harness.go"
cd "$ROOT" || exit 99
rc=0
for sc in ${2:-appear disappear stuck}; do
  go run ./zz_triage_f55 "$sc" > /tmp/f55.log 2>&1; r=$?
  grep -v -E '^[0-9]{4}-[0-9]{2}-[0-9]{2} ' /tmp/f55.log | tail -3
  [ $r -ne 0 ] && rc=1
done
rm -f /tmp/f55.log
exit $rc
