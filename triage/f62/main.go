// F62 triage (C09/C10): a TrieBucket evicted from the bucket cache is recycled while a reader still searches it.
// Exported API only: real kv store, index.NewIndexKVStore with a small cache (capacity eviction; the production
// stores evict by capacity - 1000 / 10000 buckets - and by a 10/20 minute TTL from a background goroutine).
// exit 1 = a get-or-create of an EXISTING (flushed) key created a second id / answered with a foreign id.
package main

import (
	"fmt"
	"os"
	"path"
	"sync"
	"sync/atomic"
	"time"

	"github.com/lindb/lindb/index"
	v1 "github.com/lindb/lindb/index/v1"
	"github.com/lindb/lindb/kv"
)

const (
	buckets = 16
	keysPer = 200
)

func key(b, k int) []byte { return []byte(fmt.Sprintf("bucket-%02d-key-%04d", b, k)) }
func idOf(b, k int) uint32 { return uint32(b*10000 + k + 1) }

func main() {
	dir, _ := os.MkdirTemp("", "zz_f62")
	defer os.RemoveAll(dir)
	kvStore, err := kv.GetStoreManager().CreateStore(path.Join(dir, "meta"), kv.DefaultStoreOption())
	if err != nil {
		panic(err)
	}
	family, err := kvStore.CreateFamily("dict", kv.FamilyOption{Merger: string(v1.IndexKVMerger)})
	if err != nil {
		panic(err)
	}
	store := index.NewIndexKVStore(family, 2, time.Hour)
	for b := 0; b < buckets; b++ {
		for k := 0; k < keysPer; k++ {
			want := idOf(b, k)
			if _, _, err := store.GetOrCreateValue(uint32(b), key(b, k), func() (uint32, error) { return want, nil }); err != nil {
				panic(err)
			}
		}
	}
	store.PrepareFlush()
	if err := store.Flush(); err != nil {
		panic(err)
	}

	var created, foreign, lookups int64
	var wg sync.WaitGroup
	deadline := time.Now().Add(8 * time.Second)
	for g := 0; g < 16; g++ {
		wg.Add(1)
		go func(g int) {
			defer wg.Done()
			defer func() {
				if r := recover(); r != nil {
					if atomic.AddInt64(&foreign, 1) <= 3 {
						fmt.Printf("goroutine %d: panic inside the look-up: %v\n", g, r)
					}
				}
			}()
			n := g
			for time.Now().Before(deadline) {
				n = (n*31 + 7) % (buckets * keysPer)
				b, k := n%buckets, n/buckets
				id, isNew, err := store.GetOrCreateValue(uint32(b), key(b, k), func() (uint32, error) { return 9000000 + uint32(n), nil })
				atomic.AddInt64(&lookups, 1)
				if err != nil {
					continue
				}
				if isNew {
					if atomic.AddInt64(&created, 1) <= 3 {
						fmt.Printf("existing key %q (id %d) got a SECOND id %d\n", key(b, k), idOf(b, k), id)
					}
				} else if id != idOf(b, k) && id < 9000000 {
					if atomic.AddInt64(&foreign, 1) <= 3 {
						fmt.Printf("existing key %q (id %d) answered with foreign id %d\n", key(b, k), idOf(b, k), id)
					}
				}
			}
		}(g)
	}
	wg.Wait()
	fmt.Printf("lookups=%d second-ids=%d foreign-or-panic=%d\n", lookups, created, foreign)
	if created > 0 || foreign > 0 {
		fmt.Println("FAIL: a flushed key lost its id while its bucket was evicted from the cache")
		os.Exit(1)
	}
	fmt.Println("PASS")
}
