package main

// F48 triage (C02): (*version).Release does `if v.ref.Dec() == 0 { v.fv.removeVersion(v) }` and removeVersion un-registers the
// version when it is not the current one - without looking at the reference count again under the family-version mutex that
// GetSnapshot retains under.  Schedule: reader A closes the only snapshot of the CURRENT version V (count 0) and is pre-empted
// before removeVersion; reader B takes a snapshot of V (count 1); a commit installs V'; A resumes: V is no longer current and
// is removed from the active versions although B holds it.  V's files then belong to no active version: the next
// deleteObsoleteFiles evicts and deletes them under B's open snapshot.
//
// Mode "stress" (default) runs the real Release concurrently and counts how often a held version loses its registration;
// mode "step" replays the schedule with Release's two statements issued separately (demo-only export).
import (
	"fmt"
	"os"
	"path/filepath"
	"sync"
	"sync/atomic"
	"time"

	"github.com/lindb/lindb/kv/table"
	"github.com/lindb/lindb/kv/version"
)

func must(err error) {
	if err != nil {
		panic(err)
	}
}

func registered(fv version.FamilyVersion, file table.FileNumber) bool {
	for _, f := range fv.GetAllActiveFiles() {
		if f.GetFileNumber() == file {
			return true
		}
	}
	return false
}

func main() {
	root, _ := os.MkdirTemp("", "f48-")
	defer os.RemoveAll(root)
	path := filepath.Join(root, "store")
	must(os.MkdirAll(filepath.Join(path, "f"), 0o755))
	vs := version.NewStoreVersionSet(path, table.NewCache(path, time.Minute), 2)
	must(vs.Recover())
	fv := vs.CreateFamilyVersion("f", 1)
	add := func(file table.FileNumber) {
		el := version.NewEditLog(1)
		el.Add(version.CreateNewFile(0, version.NewFileMeta(file, 1, 10, 100)))
		must(vs.CommitFamilyEditLog("f", el))
	}
	del := func(file table.FileNumber) {
		el := version.NewEditLog(1)
		el.Add(version.NewDeleteFile(0, file))
		must(vs.CommitFamilyEditLog("f", el))
	}

	if len(os.Args) > 1 && os.Args[1] == "step" {
		add(2) // V: current, holds table 2, nobody references it
		a := fv.GetSnapshot()
		version.DemoReleaseFirstHalf(a.GetCurrent()) // A.Close(): ref.Dec() -> 0 ... pre-empted before removeVersion
		b := fv.GetSnapshot()                         // B: V is still current -> retained (count 1)
		del(2)                                        // a compaction-like commit installs V' without table 2
		version.DemoReleaseSecondHalf(a.GetCurrent()) // A resumes: fv.removeVersion(V)
		ok := registered(fv, 2)
		fmt.Printf("[obs] B holds a snapshot of the version with table 2; table 2 still belongs to an active version: %v\n", ok)
		b.Close()
		if !ok {
			fmt.Println("FAIL: the version an open snapshot holds is no longer registered: its table would be deleted under the reader")
			os.Exit(1)
		}
		fmt.Println("PASS")
		return
	}

	var stop atomic.Bool
	var wg sync.WaitGroup
	for g := 0; g < 12; g++ { // readers A: open and close snapshots all the time
		wg.Add(1)
		go func() {
			defer wg.Done()
			for !stop.Load() {
				fv.GetSnapshot().Close()
			}
		}()
	}
	lost := 0
	deadline := time.Now().Add(60 * time.Second)
	rounds := 0
	for file := table.FileNumber(2); time.Now().Before(deadline) && lost == 0; file++ {
		rounds++
		add(file)
		b := fv.GetSnapshot() // reader B holds the version with `file`
		del(file)
		for i := 0; i < 50; i++ {
			if !registered(fv, file) {
				lost++
				fmt.Printf("[obs] round %d: table %d of the version held by an open snapshot belongs to no active version any more\n", rounds, file)
				break
			}
		}
		b.Close()
	}
	stop.Store(true)
	wg.Wait()
	fmt.Printf("[obs] %d rounds, %d lost registration(s)\n", rounds, lost)
	if lost > 0 {
		fmt.Println("FAIL: the version an open snapshot holds is no longer registered: its table would be deleted under the reader")
		os.Exit(1)
	}
	fmt.Println("PASS: a held version stays registered")
}
