#!/usr/bin/env bash
# one-off triage harness for F48 (not a registered check). usage: run.sh <root> [stress|step]
# exit 0 = a held version stays registered, exit 1 = it lost its registration
set -u
export GOFLAGS=-mod=mod GOPROXY=off GOSUMDB=off GOTOOLCHAIN=local TZ=UTC
ROOT="${1:-/repo}"; MODE="${2:-step}"; HERE="$(cd "$(dirname "$0")" && pwd)"
DEMO_DIR="$ROOT/zz_triage_f48"
cleanup() { rm -rf "$DEMO_DIR" "$ROOT/kv/version/zz_export_demo.go"; }
trap cleanup EXIT
mkdir -p "$DEMO_DIR"; cp "$HERE/main.go" "$DEMO_DIR/"; cp "$HERE/zz_export_demo.go.txt" "$ROOT/kv/version/zz_export_demo.go"
cd "$ROOT" && timeout 300 go run ./zz_triage_f48 "$MODE" 2>&1 | grep -E '^\[obs\]|^PASS|^FAIL|^panic|\.go:[0-9]+:[0-9]+:' | head -20
exit ${PIPESTATUS[0]}
