package main

// F30 triage (C09 / C10): metricIndexDatabase.GenSeriesID registers the tags-hash -> series id entry (GetOrCreateValue) and
// only THEN checks the series limit.  Over the limit it returns ErrTooManySeries without advancing the per-metric sequence and
// without indexing the series: the next new series is given the SAME id, and a repeated row of a rejected series returns that
// shared id with err == nil — several tag sets of one metric share one series id, none of them is findable through the index.
import (
	"bytes"
	"fmt"
	"os"
	"path/filepath"

	protoMetricsV1 "github.com/lindb/common/proto/gen/v1/linmetrics"

	"github.com/lindb/lindb/index"
	"github.com/lindb/lindb/models"
	"github.com/lindb/lindb/series/metric"
)

var conv = metric.NewProtoConverter(models.NewDefaultLimits())

func row(host string) *metric.StorageRow {
	m := &protoMetricsV1.Metric{Name: "cpu.load", Namespace: "ns",
		Tags:         []*protoMetricsV1.KeyValue{{Key: "host", Value: host}},
		SimpleFields: []*protoMetricsV1.SimpleField{{Name: "f1", Type: protoMetricsV1.SimpleFieldType_DELTA_SUM, Value: 10}}}
	var ml protoMetricsV1.MetricList
	ml.Metrics = append(ml.Metrics, m)
	var buf bytes.Buffer
	if _, err := conv.MarshalProtoMetricListV1To(ml, &buf); err != nil {
		panic(err)
	}
	var br metric.StorageBatchRows
	br.UnmarshalRows(buf.Bytes())
	return br.Rows()[0]
}

func must(err error) {
	if err != nil {
		panic(err)
	}
}

func main() {
	dir, _ := os.MkdirTemp("", "f30-")
	defer os.RemoveAll(dir)
	limits := models.NewDefaultLimits()
	limits.MaxSeriesPerMetric = 2
	models.SetDatabaseLimits("demo", limits)
	metaDB, err := index.NewMetricMetaDatabase("demo", filepath.Join(dir, "meta"))
	must(err)
	indexDB, err := index.NewMetricIndexDatabase(filepath.Join(dir, "index"), metaDB)
	must(err)
	metricID, err := metaDB.GenMetricID([]byte("ns"), []byte("cpu.load"))
	must(err)
	owner := map[uint32]string{}
	bad := 0
	gen := func(h string) {
		id, err := indexDB.GenSeriesID(metricID, row(h))
		fmt.Printf("host=%s -> series id %d err=%v\n", h, id, err)
		if err != nil {
			return
		}
		if o, ok := owner[id]; ok && o != h {
			fmt.Printf("   FAIL: series id %d was handed out (err=nil) for host=%s and for host=%s\n", id, o, h)
			bad++
		}
		owner[id] = h
	}
	for _, h := range []string{"a", "b", "c", "d", "e", "f"} {
		gen(h)
	}
	fmt.Println("the same rows again:")
	for _, h := range []string{"d", "e", "f", "a"} {
		gen(h)
	}
	if bad > 0 {
		os.Exit(1)
	}
	fmt.Println("PASS: no series id is shared by two tag sets")
}
