#!/usr/bin/env bash
# one-off triage harness for F49 (not a registered check). exit 0 = all overlapping families returned, 1 = families missing
set -u
export GOFLAGS=-mod=mod GOPROXY=off GOSUMDB=off GOTOOLCHAIN=local
ROOT="${1:-/repo}"; HERE="$(cd "$(dirname "$0")" && pwd)"
DEMO_DIR="$ROOT/zz_triage_f49"; WORK="$(mktemp -d /tmp/f49-XXXXXX)"
cleanup() { rm -rf "$DEMO_DIR" "$WORK"; }
trap cleanup EXIT
mkdir -p "$DEMO_DIR"; cp "$HERE/main.go" "$DEMO_DIR/"
(cd "$ROOT" && go build -o "$WORK/demo" ./zz_triage_f49/) || { echo "build failed"; exit 2; }
(cd "$WORK" && timeout 120 "$WORK/demo" "$WORK/node") > "$WORK/run.log" 2>&1; rc=$?
grep -E '^\[obs\]|^PASS|^FAIL|^panic' "$WORK/run.log" | head -40
[ $rc -gt 2 ] && tail -20 "$WORK/run.log"
exit $rc
