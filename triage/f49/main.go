package main

// F49 triage (C13 / C11): segment.GetDataFamilies applies CalcFamily(ts, baseTime) to the bounds of the QUERY range without
// establishing that they lie inside the segment.  For the month / year calculators CalcFamily is the calendar component of
// the timestamp (day of month / month), so for a range that crosses the segment boundary the "family query range" is rebuilt
// from a day (month) of ANOTHER segment: its start lies after its end and families strictly inside the range are passed over.
// Real engine, exported API only.  exit 0 = every family that overlaps the range is returned, exit 1 = families missing.
import (
	"fmt"
	"os"
	"path/filepath"
	"time"

	"github.com/lindb/lindb/config"
	"github.com/lindb/lindb/models"
	"github.com/lindb/lindb/pkg/option"
	"github.com/lindb/lindb/pkg/timeutil"
	"github.com/lindb/lindb/tsdb"
)

func ms(t time.Time) int64 { return t.UnixNano() / 1000000 }

func run(root, db string, interval timeutil.Interval, days []time.Time, q timeutil.TimeRange) (missing int) {
	cfg := config.NewDefaultStorageBase()
	cfg.TSDB.Dir = filepath.Join(root, "data")
	config.SetGlobalStorageConfig(cfg)
	engine, err := tsdb.NewEngine()
	if err != nil {
		panic(err)
	}
	defer engine.Close()
	opt := &option.DatabaseOption{Intervals: option.Intervals{{Interval: interval, Retention: timeutil.Interval(10 * 365 * 24 * 3600 * 1000)}}, AutoCreateNS: true}
	if err := engine.CreateShards(db, opt, models.ShardID(1)); err != nil {
		panic(err)
	}
	d, _ := engine.GetDatabase(db)
	shard, _ := d.GetShard(models.ShardID(1))
	want := map[int64]bool{}
	for _, day := range days {
		f, err := shard.GetOrCrateDataFamily(ms(day))
		if err != nil {
			panic(err)
		}
		tr := f.TimeRange()
		if q.Overlap(tr) {
			want[tr.Start] = true
		}
	}
	got := map[int64]bool{}
	for _, f := range shard.GetDataFamilies(interval.Type(), q) {
		got[f.TimeRange().Start] = true
	}
	fmt.Printf("[obs] %s interval=%s (%s) query=[%s .. %s]\n", db, interval, interval.Type(),
		time.UnixMilli(q.Start).Format("2006-01-02 15:04"), time.UnixMilli(q.End).Format("2006-01-02 15:04"))
	for s := range want {
		st := "returned"
		if !got[s] {
			st = "MISSING"
			missing++
		}
		fmt.Printf("[obs]   family starting %s overlaps the range: %s\n", time.UnixMilli(s).Format("2006-01-02"), st)
	}
	return missing
}

func main() {
	root := os.Args[1]
	now := time.Now()
	// the last month boundary before now
	b := time.Date(now.Year(), now.Month(), 1, 0, 0, 0, 0, time.Local)
	day := 24 * time.Hour
	m1 := run(filepath.Join(root, "m"), "month_db", timeutil.Interval(5*60*1000),
		[]time.Time{b.Add(-2*day + time.Hour), b.Add(-day + time.Hour), b.Add(time.Hour), b.Add(day + time.Hour)},
		timeutil.TimeRange{Start: ms(b.Add(-2*day + 12*time.Hour)), End: ms(b.Add(day + 12*time.Hour))})
	// year type: families are months; the last year boundary
	y := time.Date(now.Year(), time.January, 1, 0, 0, 0, 0, time.Local)
	m2 := run(filepath.Join(root, "y"), "year_db", timeutil.Interval(3600*1000),
		[]time.Time{y.AddDate(0, -2, 3), y.AddDate(0, -1, 3), y.AddDate(0, 0, 3), y.AddDate(0, 1, 3)},
		timeutil.TimeRange{Start: ms(y.AddDate(0, -2, 10)), End: ms(y.AddDate(0, 1, 10))})
	// control: the same range shape inside ONE segment
	m3 := run(filepath.Join(root, "c"), "control_db", timeutil.Interval(5*60*1000),
		[]time.Time{b.Add(3*day + time.Hour), b.Add(4*day + time.Hour), b.Add(5*day + time.Hour)},
		timeutil.TimeRange{Start: ms(b.Add(3*day + 12*time.Hour)), End: ms(b.Add(5*day + 12*time.Hour))})
	if m3 != 0 {
		fmt.Println("FAIL: control lost families")
		os.Exit(2)
	}
	if m1+m2 > 0 {
		fmt.Printf("FAIL: %d families that overlap the query range were not returned\n", m1+m2)
		os.Exit(1)
	}
	fmt.Println("PASS: every family that overlaps the query range is returned")
}
