package main

// F12 triage (C11): a family read is memory ∪ files. dataFamily.Filter / memoryFilter give up on the first part that
// answers with a "not found" error (file: metric present but none of the queried series; memory: field has no
// write buffer in the new mutable database / series unknown) — the operator then ignores the whole family, so
// the data held by the OTHER part is missing from the answer.
import (
	"fmt"
	"os"

	protoMetricsV1 "github.com/lindb/common/proto/gen/v1/linmetrics"

	"github.com/lindb/lindb/series/field"
)

func main() {
	h := newHarness()
	base := baseTime()
	at := func(slot int) int64 { return base + int64(slot)*10000 }
	failed := false
	expect := func(what, q, f string, agg field.AggType, slot int, want float64) {
		rs, errMsg := h.query(q, base, base+20*10000)
		got, ok := rs[""][f][agg][slot]
		if errMsg != "" || !ok || got != want {
			failed = true
			fmt.Printf("MISMATCH %s: %s -> err=%q slot %d = %v (present=%v), want %v\n", what, q, errMsg, slot, got, ok, want)
		} else {
			fmt.Printf("ok       %s: %s -> slot %d = %v\n", what, q, slot, got)
		}
	}
	// ---- scenario 1: the file part says "not found" (metric in the file, other series) while memory holds the series
	h.write(point{name: "cpu", tags: map[string]string{"host": "a"}, ts: at(3), fields: []*protoMetricsV1.SimpleField{sumField("f1", 10)}})
	h.flush(base)
	h.write(point{name: "cpu", tags: map[string]string{"host": "b"}, ts: at(4), fields: []*protoMetricsV1.SimpleField{sumField("f1", 20)}})
	expect("memory-only series, older file has the metric", "select f1 from cpu where host='b'", "f1", field.Sum, 4, 20)
	expect("control: file-only series", "select f1 from cpu where host='a'", "f1", field.Sum, 3, 10)

	// ---- scenario 2: the memory part says "field not found" (new mutable database never saw the field) while the file holds it
	h.write(point{name: "mem", tags: map[string]string{"host": "a"}, ts: at(3), fields: []*protoMetricsV1.SimpleField{sumField("g1", 1), maxField("g2", 7)}})
	h.flush(base)
	h.write(point{name: "mem", tags: map[string]string{"host": "a"}, ts: at(5), fields: []*protoMetricsV1.SimpleField{sumField("g1", 2)}})
	expect("field only in the file, memory has the metric", "select g2 from mem where host='a'", "g2", field.Max, 3, 7)
	expect("control: field in both", "select g1 from mem where host='a'", "g1", field.Sum, 5, 2)
	h.close()
	if failed {
		fmt.Println("FAIL: points that were written and acknowledged are missing from a family read")
		os.Exit(1)
	}
	fmt.Println("PASS")
}
