#!/bin/sh
# one-off triage harness for F61 (not a registered check). exit 0 = property holds, non-zero = a node that died while the watch was being established stays live
set -u
ROOT=$(cd "${1:-/repo}" && pwd); HERE=$(cd "$(dirname "$0")" && pwd)
export GOFLAGS=-mod=mod GOPROXY=off GOSUMDB=off GOTOOLCHAIN=local
cleanup() { rm -rf "$ROOT/zz_triage_f61" "$ROOT/coordinator/master/zz_export_demo.go"; }
trap cleanup EXIT
mkdir -p "$ROOT/zz_triage_f61"
cp "$HERE/main.go" "$ROOT/zz_triage_f61/main.go"; cp "$HERE/zz_export_demo.go.txt" "$ROOT/coordinator/master/zz_export_demo.go"
OUT=$(mktemp); cd "$ROOT" && go run ./zz_triage_f61 >"$OUT" 2>&1; rc=$?
grep -v '^20[0-9][0-9]-[0-9][0-9]-[0-9][0-9] ' "$OUT" | tail -8; rm -f "$OUT"; exit $rc
