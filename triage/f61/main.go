// F61 triage (C18): program written by a seeding sub-agent (C18 observation O1, round 8).
// Observation repro (UNCHANGED tree): coordinator/discovery lists the prefix and then starts a watcher; the watcher
// (pkg/state/watch.go) reads the prefix again, sends that as EventTypeAll and watches from the revision of ITS read.
// discovery.handlerResourceChange only handles EventTypeDelete/EventTypeModify and drops EventTypeAll, so a storage
// node whose registration disappears between the List and the watcher's read (and on every re-watch after a watch
// error: anything that changed meanwhile) is never reported to master as NodeFailure.
package main

import (
	"context"
	"encoding/json"
	"errors"
	"fmt"
	"os"
	"sort"
	"strings"
	"sync"

	"github.com/lindb/lindb/constants"
	"github.com/lindb/lindb/coordinator/discovery"
	"github.com/lindb/lindb/coordinator/master"
	"github.com/lindb/lindb/models"
	"github.com/lindb/lindb/pkg/option"
	"github.com/lindb/lindb/pkg/state"
	"time"
)

// memRepo is an in-memory state.Repository with fault injection for Put.
type memRepo struct {
	mu       sync.Mutex
	kvs      map[string][]byte
	failPuts map[string]int // key => number of Put calls which fail

	afterList map[string]func() // prefix => hook which runs after a List of the prefix was answered
}

func newMemRepo() *memRepo {
	return &memRepo{kvs: make(map[string][]byte), failPuts: make(map[string]int)}
}

func (r *memRepo) Get(_ context.Context, key string) ([]byte, error) {
	r.mu.Lock()
	defer r.mu.Unlock()
	v, ok := r.kvs[key]
	if !ok {
		return nil, state.ErrNotExist
	}
	return v, nil
}

func (r *memRepo) List(_ context.Context, prefix string) (rs []state.KeyValue, err error) {
	r.mu.Lock()
	defer r.mu.Unlock()
	var keys []string
	for k := range r.kvs {
		if strings.HasPrefix(k, prefix) {
			keys = append(keys, k)
		}
	}
	sort.Strings(keys)
	for _, k := range keys {
		rs = append(rs, state.KeyValue{Key: k, Value: r.kvs[k]})
	}
	if hook, ok := r.afterList[prefix]; ok {
		delete(r.afterList, prefix)
		hook()
	}
	return rs, nil
}

func (r *memRepo) WalkEntry(ctx context.Context, prefix string, fn func(key, value []byte)) error {
	kvs, _ := r.List(ctx, prefix)
	for _, kv := range kvs {
		fn([]byte(kv.Key), kv.Value)
	}
	return nil
}

func (r *memRepo) Put(_ context.Context, key string, val []byte) error {
	r.mu.Lock()
	defer r.mu.Unlock()
	if r.failPuts[key] > 0 {
		r.failPuts[key]--
		return errors.New("etcdserver: request timed out")
	}
	r.kvs[key] = val
	return nil
}

func (r *memRepo) Delete(_ context.Context, key string) error {
	r.mu.Lock()
	defer r.mu.Unlock()
	delete(r.kvs, key)
	return nil
}

func (r *memRepo) PutWithTX(context.Context, string, []byte, func([]byte) error) (bool, error) {
	return false, errors.New("not supported")
}
func (r *memRepo) Heartbeat(context.Context, string, []byte, int64) (<-chan state.Closed, error) {
	return nil, errors.New("not supported")
}
func (r *memRepo) Elect(context.Context, string, []byte, int64) (bool, <-chan state.Closed, error) {
	return false, nil, errors.New("not supported")
}
func (r *memRepo) Watch(context.Context, string, bool) state.WatchEventChan       { return nil }

// WatchPrefix behaves like pkg/state/watch.go: reads the prefix, sends what it read as ONE EventTypeAll event,
// then sends the changes made after that read (none in this history).
func (r *memRepo) WatchPrefix(ctx context.Context, prefix string, _ bool) state.WatchEventChan {
	ch := make(chan *state.Event, 1)
	kvs, _ := r.List(ctx, prefix)
	evt := &state.Event{Type: state.EventTypeAll}
	for _, kv := range kvs {
		evt.KeyValues = append(evt.KeyValues, state.EventKeyValue{Key: kv.Key, Value: kv.Value})
	}
	ch <- evt
	return ch
}
func (r *memRepo) Batch(context.Context, state.Batch) (bool, error)               { return false, nil }
func (r *memRepo) NextSequence(context.Context, string) (int64, error)            { return 0, nil }
func (r *memRepo) NewTransaction() state.Transaction                              { return nil }
func (r *memRepo) Commit(context.Context, state.Transaction) error                { return nil }
func (r *memRepo) Close() error                                                   { return nil }

type cluster struct {
	repo  *memRepo
	mgr   master.StateManager
	alive map[models.NodeID]bool
	bad   int
}

func nodeKey(id models.NodeID) string { return constants.GetStorageLiveNodePath(id.String()) }

// nodeUp registers the node in the repository(like the storage node does) and delivers the watch event.
func (c *cluster) nodeUp(id models.NodeID) {
	data, _ := json.Marshal(&models.StatefulNode{ID: id, StatelessNode: models.StatelessNode{HostIP: "10.0.0." + id.String(), GRPCPort: 2891}})
	_ = c.repo.Put(context.TODO(), nodeKey(id), data)
	c.alive[id] = true
	master.DemoProcess(c.mgr, &discovery.Event{Type: discovery.NodeStartup, Key: nodeKey(id), Value: data})
	c.check(fmt.Sprintf("node %d up", id))
}

// nodeDown removes the registration(lease expired) and delivers the watch event.
func (c *cluster) nodeDown(id models.NodeID) {
	_ = c.repo.Delete(context.TODO(), nodeKey(id))
	delete(c.alive, id)
	master.DemoProcess(c.mgr, &discovery.Event{Type: discovery.NodeFailure, Key: nodeKey(id)})
	c.check(fmt.Sprintf("node %d down", id))
}

// saveDatabase stores the database config, delivers the watch event of the config and then the watch event of the
// shard assignment which master wrote while handling it.
func (c *cluster) saveDatabase(name string, shards, replicas int) {
	data, _ := json.Marshal(&models.Database{Name: name, NumOfShard: shards, ReplicaFactor: replicas, Option: &option.DatabaseOption{}})
	_ = c.repo.Put(context.TODO(), constants.GetDatabaseConfigPath(name), data)
	master.DemoProcess(c.mgr, &discovery.Event{Type: discovery.DatabaseConfigChanged, Key: constants.GetDatabaseConfigPath(name), Value: data})
	assign, err := c.repo.Get(context.TODO(), constants.GetDatabaseAssignPath(name))
	if err != nil {
		fmt.Println("SETUP FAILURE: no shard assignment for", name, err)
		os.Exit(3)
	}
	master.DemoProcess(c.mgr, &discovery.Event{Type: discovery.ShardAssignmentChanged, Key: constants.GetDatabaseAssignPath(name), Value: assign})
	c.check(fmt.Sprintf("database %s saved(shards=%d,replicas=%d)", name, shards, replicas))
}

// check checks the leadership part of the property on the state which master reports.
func (c *cluster) check(after string) {
	st := c.mgr.GetStorageState()
	var problems []string
	for db, assignment := range st.ShardAssignments {
		for shardID, replica := range assignment.Shards {
			anyAlive := false
			for _, n := range replica.Replicas {
				if c.alive[n] {
					anyAlive = true
				}
			}
			ss, ok := st.ShardStates[db][shardID]
			online := ok && ss.State == models.OnlineShard
			if online != anyAlive {
				problems = append(problems, fmt.Sprintf("%s/shard %d replicas=%v: reported online=%v but a replica alive=%v",
					db, shardID, replica.Replicas, online, anyAlive))
			}
			if online && (!c.alive[ss.Leader] || !replica.Contain(ss.Leader)) {
				problems = append(problems, fmt.Sprintf("%s/shard %d replicas=%v: leader %d is not an alive replica(alive=%v)",
					db, shardID, replica.Replicas, ss.Leader, keys(c.alive)))
			}
		}
	}
	for id := range c.alive {
		if _, ok := st.LiveNodes[id]; !ok {
			problems = append(problems, fmt.Sprintf("alive node %d is not reported as live", id))
		}
	}
	for id := range st.LiveNodes {
		if !c.alive[id] {
			problems = append(problems, fmt.Sprintf("dead node %d is reported as live", id))
		}
	}
	sort.Strings(problems)
	if len(problems) == 0 {
		fmt.Printf("ok   after %-45s\n", after)
		return
	}
	c.bad++
	fmt.Printf("FAIL after %s\n", after)
	for _, p := range problems {
		fmt.Println("       ", p)
	}
}

func keys(m map[models.NodeID]bool) (rs []int) {
	for k := range m {
		rs = append(rs, int(k))
	}
	sort.Ints(rs)
	return
}

func main() {
	repo := newMemRepo()
	repo.afterList = make(map[string]func())
	c := &cluster{repo: repo, alive: make(map[models.NodeID]bool)}
	ctx := context.Background()
	// what is in the repository when this broker becomes master: 3 registered storage nodes, one database
	for _, id := range []models.NodeID{1, 2, 3} {
		data, _ := json.Marshal(&models.StatefulNode{ID: id, StatelessNode: models.StatelessNode{HostIP: "10.0.0." + id.String(), GRPCPort: 2891}})
		_ = repo.Put(ctx, nodeKey(id), data)
		c.alive[id] = true
	}
	cfg, _ := json.Marshal(&models.Database{Name: "db", NumOfShard: 3, ReplicaFactor: 2, Option: &option.DatabaseOption{}})
	_ = repo.Put(ctx, constants.GetDatabaseConfigPath("db"), cfg)
	assign := models.NewShardAssignment("db")
	for shard, replicas := range [][]models.NodeID{{1, 2}, {2, 3}, {3, 1}} {
		for _, n := range replicas {
			assign.AddReplica(models.ShardID(shard), n)
		}
	}
	data, _ := json.Marshal(assign)
	_ = repo.Put(ctx, constants.GetDatabaseAssignPath("db"), data)

	// node 1 dies right after discovery listed the live nodes, before the watcher reads them
	repo.afterList[constants.StorageLiveNodesPath] = func() {
		delete(repo.kvs, nodeKey(1))
		delete(c.alive, 1)
		fmt.Println("     node 1 died after the live nodes were listed")
	}

	c.mgr = master.NewStateManager(ctx, repo, nil)
	fct := master.NewStateMachineFactory(ctx, discovery.NewFactory(repo), c.mgr)
	c.mgr.SetStateMachineFactory(fct)
	if err := fct.Start(); err != nil {
		fmt.Println("SETUP FAILURE:", err)
		os.Exit(3)
	}
	time.Sleep(2 * time.Second) // all listed resources and the events of the watchers are handled
	c.check("master fail over(state machines started)")
	if c.bad > 0 {
		fmt.Println("RESULT: property C18 violated (unchanged tree)")
		os.Exit(1)
	}
	fmt.Println("RESULT: property C18 holds")
}
