#!/bin/sh
# usage: ./run.sh <Cxx|all> [quick|thorough]     decide a property on /repo's current working tree
#        ./run.sh explain <replay.json>           re-evaluate one reported obligation and show the code
# Purely static: loads and type-checks /repo (go/packages), builds SSA, evaluates the rule instances.
cd "$(dirname "$0")" || exit 2
export GOFLAGS=-mod=mod GOPROXY=off GOSUMDB=off GOTOOLCHAIN=local CGO_ENABLED=0
unset GOWORK
export GOWORK=off
BIN=./bin/lincheck
if [ ! -x "$BIN" ] || [ -n "$(find checker -name '*.go' -newer "$BIN" 2>/dev/null | head -1)" ]; then
  (cd checker && go build -o ../bin/lincheck ./cmd/lincheck) || { echo "VIOLATION property=${1:-all} replay=/verif/evidence/replay/build-failed"; exit 1; }
fi
mkdir -p evidence/replay
if [ "$1" = "explain" ]; then
  exec "$BIN" -explain "$2" -repo "${VERIF_REPO:-/repo}" -out /verif/evidence
fi
TIER="${2:-${VERIF_TIER:-quick}}"
exec "$BIN" -property "$1" -tier "$TIER" -repo "${VERIF_REPO:-/repo}" -out /verif/evidence -known /verif/known_findings.json
